package rules

import (
	"fmt"
	"go/ast"
	"go/token"
	"strings"

	"ledgerlint/internal/astx"
	"ledgerlint/internal/bunq"
	"ledgerlint/internal/core"
	"ledgerlint/internal/sqlfe"
)

func init() { register("C01", checkC01) }

func checkC01(c *core.Ctx) {
	c.Decide("every posting amount enters VolumeUpdates exactly as (Output,+,Source) and (Input,+,Destination); the accounts_volumes upsert adds excluded.input to input and excluded.output to output on the table's full primary key; nothing else writes accounts_volumes (Go builders in all packages, direct SQL, final SQL function bodies); every reader that labels a value input/output takes it from the matching column/field")
	c.NotDecided("Postgres numeric arithmetic; that point-in-time reads return the fold (C05); Numscript-produced postings (C22)")
	c.Trust("bun builders render the clauses they are given; Postgres executes ON CONFLICT DO UPDATE atomically")
	ruleVolumeUpdatesFlow(c)
	ruleUpdateVolumesUpsert(c)
	ruleAccountsVolumesWriters(c)
	ruleInputOutputLabels(c)
	// "…and for volumes read at any point in time": the window/order structure of the PIT readers
	// (C05) and of the effective-volumes trigger functions (C04) are necessary for conservation there
	ruleTemporalClauses(c)
	ruleEffectiveVolumesFunctions(c)
}

// checkSidesIndependent: the source-side and destination-side effects of one posting must not be
// alternatives of each other (else / switch over the roles): with source == destination both apply.
func checkSidesIndependent(c *core.Ctx, rule, key string, effs []Effect) {
	for _, e := range effs {
		c.Check(!e.Exclusive, rule, fmt.Sprintf("%s:independent:%s", key, e.Sig()), posOf(c, e.Pos),
			"source and destination effects are independent tests", "the "+e.Role+" side of a posting is only applied when the test for the other side failed (else-branch or switch over the two roles): a posting whose source and destination are the same account updates one side only, so input and output totals drift apart")
	}
}

// ruleVolumeUpdatesFlow: FLOW on (Transaction).VolumeUpdates.
func ruleVolumeUpdatesFlow(c *core.Ctx) {
	d := fn(c, pkgCore, "Transaction", "VolumeUpdates")
	if d == nil {
		return
	}
	info := d.Pkg.TypesInfo
	key := declKey(d)
	effs := amountEffectsScope(fnScope(c, d, 1))
	got := effectSigs(effs)
	want := []string{"(Input,+,Destination)", "(Output,+,Source)"}
	c.Check(strings.Join(got, " ") == strings.Join(want, " "), "FLOW/volume-updates", key+":effects", pos(c, d.Decl),
		"amount effects = "+strings.Join(got, " "),
		fmt.Sprintf("amount effects are %v, expected exactly %v: a posting must add its amount to the source's output and to the destination's input, once each", got, want))
	for _, e := range effs {
		c.Check(e.Accumulates, "FLOW/volume-updates", fmt.Sprintf("%s:accumulates:%s", key, e.Sig()), posOf(c, e.Pos),
			"x.Add(x, amount)", "the accumulator is not the first operand of Add: the running total is overwritten instead of accumulated")
	}
	checkSidesIndependent(c, "FLOW/volume-updates", key, effs)
	// The posting must be registered under its source and its destination; the only
	// early exit from the registration loop is the source==destination duplicate.
	var regLoop *ast.RangeStmt
	var regEnv *originEnv
	for _, e := range scopeEnvs(c, d) {
		ast.Inspect(e.d.Decl.Body, func(n ast.Node) bool {
			if rs, ok := n.(*ast.RangeStmt); ok && regLoop == nil && strings.HasSuffix(e.origin(rs.X), ".Postings") {
				regLoop, regEnv = rs, e
				return false
			}
			return true
		})
	}
	if regLoop == nil {
		c.Unrecognised("FLOW/volume-updates", key+":registration-loop", pos(c, d.Decl), "no loop over tx.Postings found in VolumeUpdates or its direct helpers")
		return
	}
	info = regEnv.info
	regBody := regEnv.d.Decl.Body
	// a posting whose source and destination are the same account must be registered once: the
	// accumulation adds its amount to the output and to the input of every registered copy. The
	// registration therefore has to compare the two sides somewhere.
	selfTest := false
	for _, e := range scopeEnvs(c, d) {
		ast.Inspect(e.d.Decl.Body, func(n ast.Node) bool {
			if be, ok := n.(*ast.BinaryExpr); ok && (be.Op == token.EQL || be.Op == token.NEQ) {
				l, r := roleOfExpr(be.X), roleOfExpr(be.Y)
				if (l == "Source" && r == "Destination") || (l == "Destination" && r == "Source") {
					selfTest = true
				}
			}
			return true
		})
	}
	c.Check(selfTest, "FLOW/volume-updates", key+":self-posting-once", pos(c, regLoop), "source == destination handled in the registration",
		"nothing in VolumeUpdates compares a posting's source with its destination: a posting from an account to itself is registered under that account twice, and its amount is added twice to the account's input and output (stored volumes, post- and pre-commit volumes and the moves are inflated; the balance hides it)")
	// appendsTwoLevel: the node appends into m[..][..]
	appendsTwoLevel := func(n ast.Node) bool {
		found := false
		ast.Inspect(n, func(x ast.Node) bool {
			as, ok := x.(*ast.AssignStmt)
			if !ok || len(as.Rhs) != 1 || len(as.Lhs) != 1 {
				return true
			}
			call, ok := as.Rhs[0].(*ast.CallExpr)
			if !ok {
				return true
			}
			if id, ok := call.Fun.(*ast.Ident); ok && id.Name == "append" {
				if ix, ok := as.Lhs[0].(*ast.IndexExpr); ok {
					if _, ok := ix.X.(*ast.IndexExpr); ok {
						found = true
					}
				}
			}
			return true
		})
		return found
	}
	roles := map[string]token.Pos{}
	viaHelper := false
	ast.Inspect(regLoop.Body, func(n ast.Node) bool {
		// registration through a local closure or a helper: register(posting.Source, posting)
		if call, ok := n.(*ast.CallExpr); ok {
			var body ast.Node
			if id, ok := call.Fun.(*ast.Ident); ok {
				if fl, ok := ast.Unparen(resolveLocal(info, regBody, id)).(*ast.FuncLit); ok {
					body = fl.Body
				} else if f := astx.Callee(info, call); f != nil {
					if dd := index(c).Decls[f]; dd != nil && dd.Decl.Body != nil {
						body = dd.Decl.Body
					}
				}
			}
			if body != nil && appendsTwoLevel(body) {
				for _, a := range call.Args {
					if r := roleOfExpr(a); r != "" {
						viaHelper = true
						if _, seen := roles[r]; !seen {
							roles[r] = call.Pos()
						}
					}
				}
			}
			return true
		}
		as, ok := n.(*ast.AssignStmt)
		if !ok || len(as.Rhs) != 1 {
			return true
		}
		call, ok := as.Rhs[0].(*ast.CallExpr)
		if !ok {
			return true
		}
		if id, ok := call.Fun.(*ast.Ident); !ok || id.Name != "append" || len(call.Args) < 2 {
			return true
		}
		// lhs: m[posting.X][posting.Asset]
		if ix, ok := as.Lhs[0].(*ast.IndexExpr); ok {
			if inner, ok := ix.X.(*ast.IndexExpr); ok {
				if r := roleOfExpr(inner.Index); r != "" && strings.HasSuffix(astx.SelectorPath(ix.Index), ".Asset") {
					if _, seen := roles[r]; !seen {
						roles[r] = as.Pos()
					}
				}
			}
		}
		return true
	})
	_ = viaHelper
	if len(roles) == 0 {
		c.Unrecognised("FLOW/volume-updates", key+":registers-both-sides", pos(c, regLoop), "the registration of postings under their accounts is not in a shape the rule reads")
		return
	}
	_, hasS := roles["Source"]
	_, hasD := roles["Destination"]
	c.Check(hasS && hasD, "FLOW/volume-updates", key+":registers-both-sides", pos(c, regLoop),
		"posting appended under [Source][Asset] and [Destination][Asset]",
		"the posting is not registered under both its source and its destination account (per asset): one side's volume update would be lost")
	ast.Inspect(regLoop.Body, func(n ast.Node) bool {
		br, ok := n.(*ast.BranchStmt)
		isRet := false
		if !ok {
			if _, r := n.(*ast.ReturnStmt); r {
				isRet = true
			} else {
				return true
			}
		}
		var p token.Pos
		if ok {
			p = br.Pos()
		} else {
			p = n.Pos()
		}
		facts := astx.FactsAt(info, regBody, p)
		same := false
		for _, f := range facts {
			if be, ok := ast.Unparen(f.Cond).(*ast.BinaryExpr); ok && be.Op == token.EQL && f.Positive {
				if (roleOfExpr(be.X) == "Source" && roleOfExpr(be.Y) == "Destination") || (roleOfExpr(be.X) == "Destination" && roleOfExpr(be.Y) == "Source") {
					same = true
				}
			}
		}
		afterSource := hasS && roles["Source"] < p
		c.Check(same && afterSource && !isRet, "FLOW/volume-updates", key+":early-exit", posOf(c, p),
			"the only skip is the source==destination duplicate, after the source registration",
			"an exit from the registration loop that is not the source==destination duplicate (or precedes the source registration) drops a posting from the volume updates")
		return true
	})
}

// ruleUpdateVolumesUpsert: SQLS on (*Store).UpdateVolumes.
func ruleUpdateVolumesUpsert(c *core.Ctx) {
	d := fn(c, pkgStore, "Store", "UpdateVolumes")
	if d == nil {
		return
	}
	key := declKey(d)
	m := bunModel(c, pkgStore)
	var ins []*bunq.Statement
	for _, s := range stmtsIn(m, d) {
		if s.Kind == "insert" {
			ins = append(ins, s)
		}
	}
	if len(ins) != 1 {
		c.Unknown("SQLS/volumes-upsert", key+":statement", pos(c, d.Decl), fmt.Sprintf("expected exactly one INSERT builder in UpdateVolumes, found %d", len(ins)))
		return
	}
	s := ins[0]
	at := posOf(c, s.Pos())
	tabs := s.Tables()
	c.Check(len(tabs) == 1 && tabs[0] == "accounts_volumes", "SQLS/volumes-upsert", key+":table", at, "accounts_volumes", fmt.Sprintf("UpdateVolumes writes %v, expected accounts_volumes", tabs))
	c.Check(s.Terminal == "Exec", "SQLS/volumes-upsert", key+":executed", at, "Exec", "the upsert statement is built but not executed in this function")
	// conflict target == primary key
	tbl := c.Catalog().Tables["accounts_volumes"]
	on := s.ClausesNamed("On")
	okOn := false
	if len(on) == 1 && on[0].HasSQL && len(on[0].SQL) == 1 && tbl != nil {
		target, _, doUpdate, ok := parseOnConflict(on[0].SQL[0])
		okOn = ok && doUpdate && sameSet(target, tbl.PK)
		c.Check(okOn, "SQLS/volumes-upsert", key+":on-conflict", pos(c, on[0].Call),
			fmt.Sprintf("on conflict %v do update = primary key %v", target, tbl.PK),
			fmt.Sprintf("ON clause %q must be `conflict (<primary key %v>) do update`: with another target or DO NOTHING the second write of an (account, asset) is dropped or fails", on[0].SQL[0], tbl.PK))
	} else {
		c.Fail("SQLS/volumes-upsert", key+":on-conflict", at, "UpdateVolumes has no single constant ON CONFLICT clause (or accounts_volumes is missing from the catalog)")
	}
	// SET input = input + excluded.input ; SET output = output + excluded.output ; nothing else
	want := map[string]string{"input": "(excluded.input + input)", "output": "(excluded.output + output)"}
	got := map[string]string{}
	for _, cl := range s.ClausesNamed("Set") {
		if !cl.HasSQL || cl.Opaque || len(cl.SQL) != 1 {
			c.Unknown("SQLS/volumes-upsert", key+":set", pos(c, cl.Call), "SET clause text is not a constant")
			continue
		}
		a, err := sqlfe.ParseAssign(cl.SQL[0])
		if err != nil {
			c.Unknown("SQLS/volumes-upsert", key+":set", pos(c, cl.Call), fmt.Sprintf("cannot parse %q: %v", cl.SQL[0], err))
			continue
		}
		col := sqlfe.LastPart(a.Col)
		got[col] = sqlfe.Canon(stripQual(a.Expr, "accounts_volumes"))
		if w, ok := want[col]; ok {
			c.Check(got[col] == w, "SQLS/volumes-upsert", key+":set:"+col, pos(c, cl.Call), cl.SQL[0],
				fmt.Sprintf("SET %s = %s, expected %s + excluded.%s: the stored volume must grow by exactly this transaction's %s", col, got[col], col, col, col))
		} else {
			c.Fail("SQLS/volumes-upsert", key+":set:"+col, pos(c, cl.Call), fmt.Sprintf("unexpected column %q assigned by the volumes upsert", col))
		}
	}
	for col := range want {
		if _, ok := got[col]; !ok {
			c.Fail("SQLS/volumes-upsert", key+":set:"+col, at, fmt.Sprintf("no SET clause for %s: conflicts would leave the stored %s unchanged", col, col))
		}
	}
	// RETURNING input, output (C03 relies on it)
	ret := ""
	for _, cl := range s.ClausesNamed("Returning") {
		ret += strings.Join(cl.SQL, ",")
	}
	items, _ := sqlfe.ParseSelectItems(ret)
	var cols []string
	for _, it := range items {
		cols = append(cols, sqlfe.Canon(it.Expr))
	}
	c.Check(sameSet(cols, []string{"input", "output"}) || (len(cols) == 1 && cols[0] == "*"), "SQLS/volumes-upsert", key+":returning", at,
		"returning input, output", fmt.Sprintf("RETURNING %v: post-commit volumes are read back from this statement and need exactly input and output", cols))
	// model rows carry ledger = store.ledger.Name
	lit := findCompositeLitField(d.Decl.Body, "Ledger")
	c.Check(lit != nil && argKind(lit) == "ledger.Name", "SCOPE/insert-ledger", key+":ledger-column", at,
		"Ledger: store.ledger.Name", "rows of the volumes upsert are not stamped with this store's ledger name")
}

func findCompositeLitField(n ast.Node, field string) ast.Expr {
	var out ast.Expr
	ast.Inspect(n, func(x ast.Node) bool {
		if cl, ok := x.(*ast.CompositeLit); ok && out == nil {
			if v := fieldOfCompositeLit(cl, field); v != nil {
				out = v
			}
		}
		return out == nil
	})
	return out
}

// ruleAccountsVolumesWriters: WMC on table accounts_volumes.
func ruleAccountsVolumesWriters(c *core.Ctx) {
	ws := tableWriters(c)
	for _, w := range opaqueWriters(ws) {
		c.Unknown("WMC/accounts_volumes", "opaque-writer:"+w.Origin, w.Pos, "a write statement whose target cannot be determined: "+w.Opaque)
	}
	for _, o := range c.Catalog().OpaqueMentioning("accounts_volumes") {
		c.Unknown("WMC/accounts_volumes", "opaque-sql:"+o.Head, o.Origin, "unclassified migration statement mentions accounts_volumes: "+o.Reason)
	}
	mine := writersOf(ws, "accounts_volumes")
	c.Floor("WMC/accounts_volumes", "writers of accounts_volumes", len(mine), 2)
	for _, w := range mine {
		key := w.Origin + ":" + w.Kind
		switch {
		case w.Origin == "go:"+pkgStore+".(Store).UpdateVolumes" && w.Kind == "upsert":
			c.Pass("WMC/accounts_volumes", key, w.Pos, "the additive upsert")
		case w.Origin == "go:"+pkgStore+".(Store).GetBalances" && w.Kind == "insert":
			// must be the zero-row, do-nothing insert
			ok := false
			why := "no ON CONFLICT DO NOTHING clause"
			if w.Stmt != nil {
				for _, cl := range w.Stmt.ClausesNamed("On") {
					if len(cl.SQL) == 1 {
						if _, nothing, _, parsed := parseOnConflict(cl.SQL[0]); parsed && nothing {
							ok = true
						}
					}
				}
				if ok {
					// values are literal zeros
					d := index(c).LookupFunc(pkgStore, "Store", "GetBalances")
					if d != nil {
						zeroIn, zeroOut := false, false
						ast.Inspect(d.Decl.Body, func(n ast.Node) bool {
							if cl, isLit := n.(*ast.CompositeLit); isLit {
								if v := fieldOfCompositeLit(cl, "Input"); v != nil && astx.RecvTypeName(d.Pkg.TypesInfo.TypeOf(cl)) == "AccountsVolumes" {
									zeroIn = isZeroBigInt(d.Pkg.TypesInfo, v)
									if o := fieldOfCompositeLit(cl, "Output"); o != nil {
										zeroOut = isZeroBigInt(d.Pkg.TypesInfo, o)
									}
								}
							}
							return true
						})
						if !(zeroIn && zeroOut) {
							ok = false
							why = "inserted Input/Output are not literal zero big.Ints"
						}
					}
				}
			}
			c.Check(ok, "WMC/accounts_volumes", key, w.Pos, "zero-valued insert, ON CONFLICT DO NOTHING", "GetBalances may only insert zero-valued rows with ON CONFLICT DO NOTHING: "+why)
		default:
			c.Fail("WMC/accounts_volumes", key, w.Pos, fmt.Sprintf("%s of accounts_volumes outside the additive upsert (UpdateVolumes) and the zero-row lock insert (GetBalances): volumes could change without a matching posting", w.Kind))
		}
	}
}

// ruleInputOutputLabels: wherever SQL labels a value 'input'/'output' (json_build_object
// keys, column aliases, row casts to the volumes type) the value comes from the column or
// field of the same side.
func ruleInputOutputLabels(c *core.Ctx) {
	m := bunModel(c, pkgStore)
	n := 0
	sideOf := func(x *sqlfe.Node) map[string]bool {
		sides := map[string]bool{}
		var visit func(y *sqlfe.Node, neg bool)
		visit = func(y *sqlfe.Node, neg bool) {
			if y == nil {
				return
			}
			switch y.Op {
			case "ident":
				switch sqlfe.LastPart(y.Text) {
				case "input", "inputs":
					sides["input"] = true
				case "output", "outputs":
					sides["output"] = true
				}
			case "field":
				switch y.Text {
				case "input", "inputs":
					sides["input"] = true
				case "output", "outputs":
					sides["output"] = true
				}
			case "case":
				// sum(case when [not] is_source then amount else 0 end)
				if len(y.Args) >= 2 {
					cond := sqlfe.Unparen(y.Args[0])
					neg := false
					if cond.Op == "un" && cond.Text == "not" {
						neg = true
						cond = sqlfe.Unparen(cond.Args[0])
					}
					if cond.Op == "ident" && sqlfe.LastPart(cond.Text) == "is_source" {
						then := sqlfe.Unparen(y.Args[1])
						if then.Op == "ident" && sqlfe.LastPart(then.Text) == "amount" {
							if neg {
								sides["input"] = true
							} else {
								sides["output"] = true
							}
						} else if then.Op == "num" {
							// case when is_source then 0 else amount
							if neg {
								sides["output"] = true
							} else {
								sides["input"] = true
							}
						}
						return
					}
				}
			}
			for _, a := range y.Args {
				visit(a, neg)
			}
		}
		visit(x, false)
		return sides
	}
	checkLabel := func(label string, val *sqlfe.Node, key, at string) {
		sides := sideOf(val)
		if len(sides) == 0 {
			return // value does not name a side (e.g. an alias of an inner query's column)
		}
		n++
		other := "output"
		if label == "output" {
			other = "input"
		}
		c.Check(sides[label] && !sides[other], "SQLS/input-output-label", key, at, label+" <- "+sqlfe.Canon(val),
			fmt.Sprintf("value labelled %q is computed from %s: input and output are crossed", label, sqlfe.Canon(val)))
	}
	var scan func(x *sqlfe.Node, key, at string)
	scan = func(x *sqlfe.Node, key, at string) {
		sqlfe.Walk(x, func(y *sqlfe.Node) bool {
			if y.Op == "call" && (sqlfe.LastPart(y.Text) == "json_build_object" || sqlfe.LastPart(y.Text) == "jsonb_build_object") {
				for i := 0; i+1 < len(y.Args); i += 2 {
					k := sqlfe.Unparen(y.Args[i])
					if k.Op == "str" && (k.Text == "input" || k.Text == "output") {
						checkLabel(k.Text, y.Args[i+1], key+":json:"+k.Text, at)
					}
				}
			}
			if y.Op == "cast" && strings.HasSuffix(y.Text, "volumes") && len(y.Args) == 1 {
				row := y.Args[0]
				if row.Op == "row" && len(row.Args) == 2 {
					// volumes type is (inputs, outputs)
					checkLabel("input", row.Args[0], key+":row:1", at)
					checkLabel("output", row.Args[1], key+":row:2", at)
				}
			}
			return true
		})
	}
	for _, s := range m.Stmts {
		fkey := enclKey(pkgStore, s.Encl)
		for _, cl := range s.ClausesNamed("ColumnExpr") {
			for _, alt := range cl.SQL {
				items, err := sqlfe.ParseSelectItems(alt)
				if err != nil {
					if strings.Contains(alt, "input") || strings.Contains(alt, "output") {
						c.Unknown("SQLS/input-output-label", fkey+":unparsed", pos(c, cl.Call), fmt.Sprintf("cannot parse %q: %v", alt, err))
					}
					continue
				}
				for _, it := range items {
					k := fkey + ":" + it.Alias
					if it.Alias == "input" || it.Alias == "output" {
						checkLabel(it.Alias, it.Expr, k+":alias", pos(c, cl.Call))
					}
					scan(it.Expr, k, pos(c, cl.Call))
				}
			}
		}
	}
	// volumes composite type field order
	if ty, ok := c.Catalog().Types["volumes"]; ok {
		toks, _ := sqlfe.Lex(ty)
		var fields []string
		for i, t := range toks {
			if t.Is("numeric") && i > 0 {
				fields = append(fields, toks[i-1].Text)
			}
		}
		c.Check(len(fields) == 2 && fields[0] == "inputs" && fields[1] == "outputs", "SQLS/input-output-label", "sql:type volumes:field-order", "", "volumes = (inputs, outputs)",
			fmt.Sprintf("composite type volumes has fields %v; every (input, output)::volumes row cast in the Go code assumes (inputs, outputs)", fields))
	} else {
		c.Unknown("SQLS/input-output-label", "sql:type volumes", "", "composite type volumes not found in the folded catalog")
	}
	// trigger functions that maintain effective volumes
	for _, fname := range []string{"set_effective_volumes", "update_effective_volumes"} {
		f := c.Catalog().Functions[fname]
		if f == nil {
			continue
		}
		for _, st := range f.AllStmts() {
			for _, a := range st.Set {
				sqlfe.Walk(a.Expr, func(y *sqlfe.Node) bool {
					if y.Op == "row" && len(y.Args) == 2 {
						checkLabel("input", y.Args[0], "sql:"+fname+":row:1", f.Origin)
						checkLabel("output", y.Args[1], "sql:"+fname+":row:2", f.Origin)
					}
					if y.Sub != nil {
						for _, it := range y.Sub.Cols {
							r := sqlfe.Unparen(it.Expr)
							if r.Op == "row" && len(r.Args) == 2 {
								checkLabel("input", r.Args[0], "sql:"+fname+":subrow:1", f.Origin)
								checkLabel("output", r.Args[1], "sql:"+fname+":subrow:2", f.Origin)
							}
						}
					}
					return true
				})
			}
		}
	}
	c.Floor("SQLS/input-output-label", "labelled input/output values", n, 12)
}

func init() {
	addBreakers("C01",
		Breaker{Name: "swap-input-output-in-VolumeUpdates", File: "internal/transaction.go",
			Old: "volumes.Output.Add(volumes.Output, posting.Amount)", New: "volumes.Input.Add(volumes.Input, posting.Amount)", Expect: "FLOW/volume-updates"},
		Breaker{Name: "destination-guard-uses-source", File: "internal/transaction.go",
			Old: "if account == posting.Destination {\n\t\t\t\t\tvolumes.Input.Add", New: "if account == posting.Source {\n\t\t\t\t\tvolumes.Input.Add", Expect: "FLOW/volume-updates"},
		Breaker{Name: "accumulator-overwritten", File: "internal/transaction.go",
			Old: "volumes.Input.Add(volumes.Input, posting.Amount)", New: "volumes.Input.Add(volumes.Output, posting.Amount)", Expect: "accumulates"},
		Breaker{Name: "skip-destination-registration-for-world", File: "internal/transaction.go",
			Old: "if posting.Source == posting.Destination {\n\t\t\tcontinue\n\t\t}", New: "if posting.Source == posting.Destination || posting.Destination == \"world\" {\n\t\t\tcontinue\n\t\t}", Expect: "early-exit"},
		Breaker{Name: "upsert-excluded-output-into-input", File: "internal/storage/ledger/volumes.go",
			Old: `Set("input = accounts_volumes.input + excluded.input")`, New: `Set("input = accounts_volumes.input + excluded.output")`, Expect: "SQLS/volumes-upsert"},
		Breaker{Name: "upsert-overwrites-instead-of-adding", File: "internal/storage/ledger/volumes.go",
			Old: `Set("output = accounts_volumes.output + excluded.output")`, New: `Set("output = excluded.output")`, Expect: "SQLS/volumes-upsert"},
		Breaker{Name: "upsert-do-nothing", File: "internal/storage/ledger/volumes.go",
			Old: `On("conflict (ledger, accounts_address, asset) do update")`, New: `On("conflict (ledger, accounts_address, asset) do nothing")`, Expect: "on-conflict"},
		Breaker{Name: "upsert-conflict-target-without-ledger", File: "internal/storage/ledger/volumes.go",
			Old: `On("conflict (ledger, accounts_address, asset) do update")`, New: `On("conflict (accounts_address, asset) do update")`, Expect: "on-conflict"},
		Breaker{Name: "getbalances-insert-nonzero", File: "internal/storage/ledger/balances.go",
			Old: "Input:   new(big.Int),", New: "Input:   big.NewInt(1),", Expect: "WMC/accounts_volumes"},
		Breaker{Name: "extra-writer-of-accounts-volumes", File: "internal/storage/ledger/accounts.go",
			Old: "return postgres.ResolveError(err)\n\t\t}),\n\t)\n\treturn err\n}\n\nfunc (store *Store) UpsertAccounts", New: "_, _ = store.db.NewUpdate().ModelTableExpr(store.GetPrefixedRelationName(\"accounts_volumes\")).Set(\"input = 0\").Where(\"ledger = ?\", store.ledger.Name).Exec(ctx)\n\t\t\treturn postgres.ResolveError(err)\n\t\t}),\n\t)\n\treturn err\n}\n\nfunc (store *Store) UpsertAccounts", Expect: "WMC/accounts_volumes"},
		Breaker{Name: "pit-volumes-input-from-source-moves", File: "internal/storage/ledger/resource_volumes.go",
			Old: `ColumnExpr("sum(case when not is_source then amount else 0 end) as input")`, New: `ColumnExpr("sum(case when is_source then amount else 0 end) as input")`, Expect: "SQLS/input-output-label"},
		Breaker{Name: "aggregated-output-from-inputs", File: "internal/storage/ledger/resource_aggregated_balances.go",
			Old: `'output', sum(((volumes).outputs)::numeric)`, New: `'output', sum(((volumes).inputs)::numeric)`, Expect: "SQLS/input-output-label"},
		Breaker{Name: "sql-trigger-writes-accounts-volumes", File: "internal/storage/bucket/migrations/44-fix-seq-scan-in-plpgsql/up.sql",
			Old: "\treturn new;", New: "\tupdate accounts_volumes set input = input + 1 where ledger = new.ledger;\n\treturn new;", Expect: "WMC/accounts_volumes"},
	)
}
