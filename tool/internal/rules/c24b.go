package rules

import (
	"go/ast"
	"go/token"
	"go/types"
	"strings"

	"ledgerlint/internal/astx"
	"ledgerlint/internal/core"
)

// ruleAllocateShapeTolerant is the name-independent version of the allocation shape rule: every
// sub-obligation first looks for its anchor (by structure, never by local names); when the anchor
// is not there the obligation is reported as an unrecognised shape, not as a violation.
func ruleAllocateShapeTolerant(c *core.Ctx) {
	d := fn(c, pkgMachine, "Allotment", "Allocate")
	if d == nil {
		return
	}
	info := d.Pkg.TypesInfo
	key := declKey(d)
	if len(d.Decl.Type.Params.List) != 1 || len(d.Decl.Type.Params.List[0].Names) != 1 {
		c.Unrecognised("SHAPE/allocate", key+":signature", pos(c, d.Decl), "Allocate(amount) signature changed")
		return
	}
	amount := d.Decl.Type.Params.List[0].Names[0].Name
	// ---- floor: Mul(_, x.Num()) then Div/Quo(_, x.Denom()) on the same accumulator ----------------
	var mul, div *ast.CallExpr
	for _, call := range callsTo(info, d.Decl.Body, func(f *types.Func) bool { return isBigIntMethod(f, "Mul", "Div", "Quo") }) {
		if len(call.Args) != 2 {
			continue
		}
		switch astx.Callee(info, call).Name() {
		case "Mul":
			if strings.HasSuffix(types.ExprString(call.Args[1]), ".Num()") || strings.HasSuffix(types.ExprString(call.Args[0]), ".Num()") {
				mul = call
			}
		case "Div", "Quo":
			if strings.HasSuffix(types.ExprString(call.Args[1]), ".Denom()") {
				div = call
			}
			if strings.HasSuffix(types.ExprString(call.Args[0]), ".Denom()") {
				div = call // dividing the denominator by something: recognised and wrong
			}
		}
	}
	recFloor := mul != nil || div != nil
	okFloor := mul != nil && div != nil && mul.Pos() < div.Pos() &&
		strings.HasSuffix(types.ExprString(div.Args[1]), ".Denom()") &&
		types.ExprString(recvExpr(mul)) == types.ExprString(recvExpr(div)) &&
		strings.TrimPrefix(types.ExprString(div.Args[0]), "&") == types.ExprString(recvExpr(mul))
	if okFloor {
		// the other factor is the amount (directly or through a local defined from it)
		other := mul.Args[0]
		if strings.HasSuffix(types.ExprString(other), ".Num()") {
			other = mul.Args[1]
		}
		o := ast.Unparen(other)
		if u, ok := o.(*ast.UnaryExpr); ok && u.Op == token.AND {
			o = u.X
		}
		src := types.ExprString(resolveLocal(info, d.Decl.Body, o))
		okFloor = strings.Contains(src, amount)
	}
	c.Shape(recFloor, okFloor, "SHAPE/allocate", key+":floor", pos(c, d.Decl), "part = amount × num ÷ denom (multiply first, integer division)", "a part is not computed as amount×numerator divided by the denominator with the multiplication first: dividing first (or rounding otherwise) loses units that the leftover pass cannot give back")
	// ---- running total: T = T.Add(<part>) --------------------------------------------------------
	type acc struct {
		as   *ast.AssignStmt
		name string
		arg  string
	}
	var accs []acc
	ast.Inspect(d.Decl.Body, func(n ast.Node) bool {
		as, ok := n.(*ast.AssignStmt)
		if !ok || len(as.Lhs) != 1 || len(as.Rhs) != 1 {
			return true
		}
		if b, ok := matchPat(types.ExprString(as.Rhs[0]), "$t.Add("+"$x"+")"); ok && b["t"] == types.ExprString(as.Lhs[0]) {
			accs = append(accs, acc{as, b["t"], b["x"]})
		} else if call, ok := as.Rhs[0].(*ast.CallExpr); ok && len(call.Args) == 1 {
			if f := astx.Callee(info, call); f != nil && f.Name() == "Add" && types.ExprString(recvExpr(call)) == types.ExprString(as.Lhs[0]) {
				accs = append(accs, acc{as, types.ExprString(as.Lhs[0]), nospace(types.ExprString(call.Args[0]))})
			}
		}
		return true
	})
	// the leftover test: `if T.Lt(amount)` (or Lte/… recognised and wrong)
	var leftIf *ast.IfStmt
	var total, cmp string
	ast.Inspect(d.Decl.Body, func(n ast.Node) bool {
		is, ok := n.(*ast.IfStmt)
		if !ok {
			return true
		}
		conj := splitAnd(is.Cond)
		for _, cj := range conj {
			for _, m := range []string{"Lt", "Lte", "Gt", "Gte", "Eq"} {
				if b, ok := matchPat(types.ExprString(cj), "$t."+m+"("+amount+")"); ok {
					leftIf, total, cmp = is, b["t"], m
					if len(conj) > 1 {
						cmp = m + " with an extra condition"
					}
				}
			}
		}
		return true
	})
	recLeft := leftIf != nil
	okLeft := false
	if recLeft {
		// inside a loop that walks the parts upwards: `for i := range parts` (or 0..len)
		var loop ast.Node
		ast.Inspect(d.Decl.Body, func(n ast.Node) bool {
			switch l := n.(type) {
			case *ast.RangeStmt:
				if l.Body.Pos() <= leftIf.Pos() && leftIf.End() <= l.Body.End() {
					loop = l
				}
			case *ast.ForStmt:
				if l.Body.Pos() <= leftIf.Pos() && leftIf.End() <= l.Body.End() {
					loop = l
				}
			}
			return true
		})
		upwards := false
		switch l := loop.(type) {
		case *ast.RangeStmt:
			upwards = true
			_ = l
		case *ast.ForStmt:
			if inc, ok := l.Post.(*ast.IncDecStmt); ok && inc.Tok == token.INC {
				if as, ok := l.Init.(*ast.AssignStmt); ok && len(as.Rhs) == 1 && types.ExprString(as.Rhs[0]) == "0" {
					upwards = true
				}
			}
		}
		incPart, incTotal, extra := false, false, false
		for _, st := range leftIf.Body.List {
			as, ok := st.(*ast.AssignStmt)
			if !ok || len(as.Lhs) != 1 || len(as.Rhs) != 1 {
				extra = true
				continue
			}
			l, r := nospace(types.ExprString(as.Lhs[0])), nospace(types.ExprString(as.Rhs[0]))
			one := strings.HasSuffix(r, ".Add(NewMonetaryInt(1))")
			switch {
			case one && strings.Contains(l, "[") && strings.HasPrefix(r, l+"."):
				incPart = true
			case one && l == total && strings.HasPrefix(r, total+"."):
				incTotal = true
			default:
				extra = true
			}
		}
		// nothing else in the loop may skip a part (continue/break) or leave
		skips := false
		var loopBody *ast.BlockStmt
		switch l := loop.(type) {
		case *ast.RangeStmt:
			loopBody = l.Body
		case *ast.ForStmt:
			loopBody = l.Body
		}
		if loopBody != nil {
			ast.Inspect(loopBody, func(n ast.Node) bool {
				switch n.(type) {
				case *ast.BranchStmt, *ast.ReturnStmt:
					skips = true
				}
				return true
			})
		}
		okLeft = cmp == "Lt" && upwards && incPart && incTotal && !extra && leftIf.Else == nil && !skips
	}
	c.Shape(recLeft, okLeft, "SHAPE/allocate", key+":leftover", pos(c, d.Decl), "from the first part on: +1 to the part and to the total while total < amount", "the leftover pass does not hand exactly one unit to each part from the first one on, counting it, while the running total is strictly below the amount: the parts then sum to more or less than the amount, or the extra units go to the wrong parts")
	// the floor pass adds every part to that same total, unconditionally
	recAcc, okAcc := false, false
	for _, a := range accs {
		if a.name != total || strings.Contains(a.arg, "NewMonetaryInt(1)") {
			continue
		}
		recAcc = true
		fs := factsNoErr(factStrings(info, d.Decl.Body, a.as.Pos()))
		if len(fs) == 0 {
			okAcc = true
		}
	}
	c.Shape(recLeft && recAcc, okAcc, "SHAPE/allocate", key+":floor-total", pos(c, d.Decl), "running total += every floored part, unconditionally", "the running total does not accumulate every floored part unconditionally: the leftover pass then hands out too many units")
	if recLeft && !recAcc {
		c.Fail("SHAPE/allocate", key+":floor-total", pos(c, d.Decl), "the running total tested by the leftover pass is never fed with the floored parts")
	}
	// ---- VM: OP_ALLOC pushes the parts last-to-first ---------------------------------------------
	if t := fn(c, pkgVM, "Machine", "tick"); t != nil {
		ti := t.Pkg.TypesInfo
		rec, ok := false, false
		ast.Inspect(t.Decl.Body, func(n ast.Node) bool {
			cc, isC := n.(*ast.CaseClause)
			if !isC || len(cc.List) != 1 || !strings.HasSuffix(types.ExprString(cc.List[0]), "OP_ALLOC") {
				return true
			}
			alloc := callsTo(ti, cc, named("Allocate"))
			if len(alloc) != 1 {
				return false
			}
			var partsVar string
			ast.Inspect(cc, func(m ast.Node) bool {
				if as, isA := m.(*ast.AssignStmt); isA && len(as.Rhs) == 1 && ast.Unparen(as.Rhs[0]) == ast.Expr(alloc[0]) && len(as.Lhs) == 1 {
					partsVar = types.ExprString(as.Lhs[0])
				}
				return true
			})
			ast.Inspect(cc, func(m ast.Node) bool {
				loop, isF := m.(*ast.ForStmt)
				if !isF || loop.Init == nil || loop.Cond == nil || loop.Post == nil || len(callsTo(ti, loop.Body, named("pushValue"))) != 1 {
					return true
				}
				rec = true
				init := nospace(stmtString(loop.Init))
				cond := nospace(types.ExprString(loop.Cond))
				post, isInc := loop.Post.(*ast.IncDecStmt)
				_, okInit := matchPat(init, "$i:=len("+partsVar+")-1")
				_, okCond := matchPat(cond, "$i>=0")
				ok = partsVar != "" && okInit && okCond && isInc && post.Tok == token.DEC
				return true
			})
			if !rec {
				// a range loop pushes first-to-last: recognised and wrong
				ast.Inspect(cc, func(m ast.Node) bool {
					if rg, isR := m.(*ast.RangeStmt); isR && partsVar != "" && types.ExprString(rg.X) == partsVar && len(callsTo(ti, rg.Body, named("pushValue"))) == 1 {
						rec = true
					}
					return true
				})
			}
			return false
		})
		c.Shape(rec, ok, "SHAPE/allocate", declKey(t)+":OP_ALLOC-push-order", pos(c, t.Decl), "parts pushed last-to-first", "OP_ALLOC does not push the allocated parts last-to-first: the first destination would receive the last part (the leftover units go to the wrong destinations)")
	}
}
