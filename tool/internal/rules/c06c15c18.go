package rules

import (
	"fmt"
	"go/ast"
	"go/token"
	"go/types"
	"sort"
	"strings"

	"ledgerlint/internal/astx"
	"ledgerlint/internal/bunq"
	"ledgerlint/internal/core"
	"ledgerlint/internal/sqlfe"
)

func init() {
	register("C06", checkC06)
	register("C15", checkC15)
	register("C18", checkC18)
	addBreakers("C15",
		Breaker{Name: "revert-update-without-null-guard", File: "internal/storage/ledger/transactions.go",
			Old: "\t\t\t\tWhere(\"reverted_at is null\").\n", New: "", Expect: "SQLS/revert-update"},
		Breaker{Name: "already-reverted-check-dropped", File: "internal/controller/ledger/controller_default.go",
			Old: "\tif !hasBeenReverted {\n\t\treturn nil, newErrAlreadyReverted(parameters.Input.TransactionID)\n\t}\n", New: "\t_ = hasBeenReverted\n", Expect: "DOM/revert"},
		Breaker{Name: "reverse-does-not-swap", File: "internal/posting.go",
			Old: "postings[i].Source, postings[i].Destination = postings[i].Destination, postings[i].Source", New: "postings[i].Source, postings[i].Destination = postings[i].Source, postings[i].Destination", Expect: "FLOW/postings-reverse"},
		Breaker{Name: "reverse-keeps-order", File: "internal/posting.go",
			Old: "\tfor i := 0; i < len(p)/2; i++ {\n\t\tpostings[i], postings[len(postings)-i-1] = postings[len(postings)-i-1], postings[i]\n\t}\n", New: "", Expect: "FLOW/postings-reverse"},
		Breaker{Name: "reverse-in-place", File: "internal/posting.go",
			Old: "\tpostings := make(Postings, len(p))\n\tcopy(postings, p)\n", New: "\tpostings := p\n", Expect: "FLOW/postings-reverse"},
		Breaker{Name: "revert-timestamp-swapped", File: "internal/controller/ledger/controller_default.go",
			Old: "\tif parameters.Input.AtEffectiveDate {\n\t\treversedTx = reversedTx.WithTimestamp(originalTransaction.Timestamp)", New: "\tif !parameters.Input.AtEffectiveDate {\n\t\treversedTx = reversedTx.WithTimestamp(originalTransaction.Timestamp)", Expect: "DOM/revert"},
		Breaker{Name: "revert-mark-uses-new-id", File: "internal/controller/ledger/controller_default.go",
			Old: "ledger.MarkReverts(parameters.Input.Metadata, *originalTransaction.ID)", New: "ledger.MarkReverts(parameters.Input.Metadata, parameters.Input.TransactionID+1)", Expect: "DOM/revert"},
		Breaker{Name: "retrieve-arm-marks-modified", File: "internal/storage/ledger/transactions.go",
			Old: `ColumnExpr("*, false as modified").`, New: `ColumnExpr("*, true as modified").`, Expect: "SQLS/update-with-retrieve"},
	)
	addBreakers("C18",
		Breaker{Name: "first-usage-overwritten", File: "internal/storage/ledger/accounts.go",
			Old: "first_usage = LEAST(d.first_usage, a.first_usage),", New: "first_usage = d.first_usage,", Expect: "SQLS/first-usage-min"},
		Breaker{Name: "metadata-upsert-first-usage-max", File: "internal/storage/ledger/accounts.go",
			Old: "case when excluded.first_usage < accounts.first_usage then excluded.first_usage else accounts.first_usage end", New: "case when excluded.first_usage > accounts.first_usage then excluded.first_usage else accounts.first_usage end", Expect: "SQLS/first-usage-min"},
		Breaker{Name: "insertion-date-updated", File: "internal/storage/ledger/accounts.go",
			Old: "updated_at = COALESCE(d.updated_at, ?1.transaction_date())", New: "updated_at = COALESCE(d.updated_at, ?1.transaction_date()), insertion_date = d.insertion_date", Expect: "WMC/insertion-date"},
		Breaker{Name: "accounts-upserted-before-commit-only-on-error", File: "internal/controller/ledger/controller_default.go",
			Old: "\terr = ctrl.upsertTransactionAccounts(ctx, store, schema, &transaction, accountMetadata)\n\tif err != nil {\n\t\treturn nil, err\n\t}\n", New: "\tif len(accountMetadata) > 0 {\n\t\terr = ctrl.upsertTransactionAccounts(ctx, store, schema, &transaction, accountMetadata)\n\t\tif err != nil {\n\t\t\treturn nil, err\n\t\t}\n\t}\n", Expect: "DOM/accounts-upserted"},
		Breaker{Name: "first-usage-from-insertion-time", File: "internal/transaction.go",
			Old: "FirstUsage:    tx.Timestamp,", New: "FirstUsage:    tx.InsertedAt,", Expect: "FLOW/accounts-with-default-metadata"},
		Breaker{Name: "involved-accounts-only-sources", File: "internal/transaction.go",
			Old: "ret = append(ret, posting.Source, posting.Destination)", New: "ret = append(ret, posting.Source)", Expect: "FLOW/involved-accounts"},
	)
	addBreakers("C06",
		Breaker{Name: "emptied-source-left-at-zero", File: "internal/machine/vm/machine.go",
			Old: "\t\t\t\taccBalances[asset] = overdraft.Neg()", New: "\t\t\t\taccBalances[asset] = machine.Zero", Expect: "DOM/withdraw-all"},
		Breaker{Name: "balances-without-row-lock", File: "internal/storage/ledger/balances.go",
			Old: "\t\t\t\tFor(\"update\").\n", New: "", Expect: "SQLS/get-balances"},
		Breaker{Name: "zero-rows-not-created", File: "internal/storage/ledger/balances.go",
			Old: "\t\t\t\tWith(\n\t\t\t\t\t\"ins\",", New: "\t\t\t\tWith(\n\t\t\t\t\t\"ins_unused\",", Expect: "SQLS/get-balances", Old2: "On(\"conflict do nothing\"),", New2: "On(\"conflict do nothing\").Where(\"false\"),"},
		Breaker{Name: "lock-order-unspecified", File: "internal/storage/ledger/balances.go",
			Old: "\t\t\t\tOrder(\"accounts_address\", \"asset\").\n", New: "", Expect: "SQLS/get-balances"},
		Breaker{Name: "execute-on-untransactional-store", File: "internal/controller/ledger/controller_default.go",
			Old: "a, err := m.Execute(ctx, store, parameters.Input.Vars)", New: "a, err := m.Execute(ctx, ctrl.store, parameters.Input.Vars)", Expect: "TXH/execute-store"},
		Breaker{Name: "revert-check-skipped-for-bank", File: "internal/controller/ledger/controller_default.go",
			Old: `if finalBalance.Cmp(new(big.Int)) < 0 && account != "world" {`, New: `if finalBalance.Cmp(new(big.Int)) < 0 && account != "world" && account != "bank" {`, Expect: "DOM/revert-balance-check"},
		Breaker{Name: "revert-check-after-commit", File: "internal/controller/ledger/controller_default.go",
			Old: "\tbalances, err := store.GetBalances(ctx, bq)\n\tif err != nil {\n\t\treturn nil, fmt.Errorf(\"failed to get balances: %w\", err)\n\t}\n", New: "\tbalances, err := ctrl.store.GetBalances(ctx, bq)\n\tif err != nil {\n\t\treturn nil, fmt.Errorf(\"failed to get balances: %w\", err)\n\t}\n", Expect: "TXH/store-call"},
		Breaker{Name: "revert-balance-adds-to-source", File: "internal/controller/ledger/controller_default.go",
			Old: "\t\t\t\tbig.NewInt(0).Neg(posting.Amount),\n", New: "\t\t\t\tposting.Amount,\n", Expect: "FLOW/revert-balances"},
		Breaker{Name: "revert-check-on-sources-of-original", File: "internal/controller/ledger/controller_default.go",
			Old: "bq := originalTransaction.InvolvedDestinations()", New: "bq := originalTransaction.InvolvedDestinations()\n\tdelete(bq, \"users:001\")", Expect: "DOM/revert-balance-check"},
		Breaker{Name: "withdraw-all-unbounded", File: "internal/machine/vm/machine.go",
			Old: "\t\t\tif balanceWithOverdraft.Gt(machine.Zero) {\n\t\t\t\tamountTaken = balanceWithOverdraft", New: "\t\t\tif true {\n\t\t\t\tamountTaken = balanceWithOverdraft", Expect: "DOM/withdraw-all"},
	)
}

// ================= C15 =================

func checkC15(c *core.Ctx) {
	c.Decide("the revert UPDATE is `set reverted_at … where id = ? and reverted_at is null and ledger = ? returning *`, executed through updateTxWithRetrieve whose union arm reports modified=false for an existing but unmodified row; revertTransaction refuses with ErrAlreadyReverted before doing anything else when the row was not modified, commits exactly one transaction on every success path; Postings.Reverse works on a copy, swaps source/destination of every element and reverses the order; the revert metadata is MarkReverts(input metadata, original id); the timestamp is the original's under AtEffectiveDate and the revert time otherwise")
	c.NotDecided("a single winner among concurrent reverts (row-lock semantics of UPDATE … WHERE reverted_at IS NULL); that balances are unchanged (C01/C02)")
	c.Trust("Postgres evaluates the UPDATE predicate atomically per row")
	ruleRevertUpdate(c)
	ruleRevertController(c)
	rulePostingsReverse(c)
	ruleMarkReverts(c)
}

func ruleRevertUpdate(c *core.Ctx) {
	d := fn(c, pkgStore, "Store", "RevertTransaction")
	if d == nil {
		return
	}
	key := declKey(d)
	m := bunModel(c, pkgStore)
	var upd *bunq.Statement
	for _, s := range stmtsIn(m, d) {
		if s.Kind == "update" {
			upd = s
		}
	}
	if upd == nil {
		c.Fail("SQLS/revert-update", key+":statement", pos(c, d.Decl), "RevertTransaction no longer builds an UPDATE statement")
		return
	}
	var conj []string
	for _, cj := range whereConjuncts(c, upd, key) {
		conj = append(conj, sqlfe.Canon(cj.Node))
	}
	sort.Strings(conj)
	want := []string{"(? = id)", "(? = ledger)", "(reverted_at is null)"}
	c.Check(eqStrings(conj, want), "SQLS/revert-update", key+":where", posOf(c, upd.Pos()), strings.Join(conj, " and "),
		fmt.Sprintf("revert UPDATE is filtered by %v, expected exactly %v: without `reverted_at is null` a second revert would succeed again", conj, want))
	tabs := upd.Tables()
	c.Check(len(tabs) == 1 && tabs[0] == "transactions", "SQLS/revert-update", key+":table", posOf(c, upd.Pos()), "transactions", fmt.Sprintf("revert UPDATE targets %v", tabs))
	// SET reverted_at on both date branches
	nSet := 0
	for _, cl := range upd.ClausesNamed("Set") {
		for _, alt := range cl.SQL {
			if a, err := sqlfe.ParseAssign(alt); err == nil && sqlfe.LastPart(a.Col) == "reverted_at" {
				nSet++
			}
		}
	}
	c.Check(nSet == 2, "SQLS/revert-update", key+":sets-reverted-at", posOf(c, upd.Pos()), "reverted_at set with and without explicit date", fmt.Sprintf("reverted_at is assigned on %d of the 2 date branches", nSet))
	ret := false
	for _, cl := range upd.ClausesNamed("Returning") {
		if len(cl.SQL) == 1 && strings.TrimSpace(cl.SQL[0]) == "*" {
			ret = true
		}
	}
	c.Check(ret, "SQLS/revert-update", key+":returning", posOf(c, upd.Pos()), "returning *", "revert UPDATE must return the row (the controller builds the reverse from it)")
	calls := callsTo(d.Pkg.TypesInfo, d.Decl.Body, named("updateTxWithRetrieve"))
	c.Check(len(calls) == 1, "SQLS/revert-update", key+":via-updateTxWithRetrieve", pos(c, d.Decl), "executed through updateTxWithRetrieve", "the revert UPDATE is not executed through updateTxWithRetrieve (which tells 'already reverted' from 'not found')")
	// updateTxWithRetrieve: union arm
	u := fn(c, pkgStore, "Store", "updateTxWithRetrieve")
	if u == nil {
		return
	}
	ukey := declKey(u)
	var flags []string
	var lookupConj []string
	for _, s := range stmtsIn(m, u) {
		for _, cl := range s.ClausesNamed("ColumnExpr") {
			for _, alt := range cl.SQL {
				items, err := sqlfe.ParseSelectItems(alt)
				if err != nil {
					continue
				}
				for _, it := range items {
					if it.Alias == "modified" {
						src := "table"
						for _, t := range s.Tables() {
							if t == "upd" {
								src = "upd"
							}
						}
						flags = append(flags, src+"="+sqlfe.Canon(it.Expr))
					}
				}
			}
		}
		for _, t := range s.Tables() {
			if t == "transactions" {
				for _, cj := range whereConjuncts(c, s, ukey) {
					lookupConj = append(lookupConj, sqlfe.Canon(cj.Node))
				}
			}
		}
	}
	sort.Strings(flags)
	sort.Strings(lookupConj)
	c.Check(eqStrings(flags, []string{"table=false", "upd=true"}), "SQLS/update-with-retrieve", ukey+":modified-flags", pos(c, u.Decl), "upd arm true, lookup arm false", fmt.Sprintf("modified flags are %v, expected the UPDATE arm to report true and the fallback lookup false", flags))
	c.Check(eqStrings(lookupConj, []string{"(? = id)", "(? = ledger)"}), "SQLS/update-with-retrieve", ukey+":lookup-filter", pos(c, u.Decl), "fallback lookup by id and ledger", fmt.Sprintf("fallback lookup filters by %v", lookupConj))
}

func ruleRevertController(c *core.Ctx) {
	d := fn(c, pkgCtrl, "DefaultController", "revertTransaction")
	if d == nil {
		return
	}
	info := d.Pkg.TypesInfo
	key := declKey(d)
	flow := astx.NewFlow(info, d.Decl.Body)
	rev := callsTo(info, d.Decl.Body, named("RevertTransaction"))
	com := callsTo(info, d.Decl.Body, named("CommitTransaction"))
	if !onceEach(c, d, "DOM/revert", key+":calls", "revertTransaction must mark the original reverted (RevertTransaction) and commit the reverse (CommitTransaction) once each", "RevertTransaction", "CommitTransaction") {
		return
	}
	// already-reverted refusal right after the revert call
	var modifiedVar types.Object
	ast.Inspect(d.Decl.Body, func(n ast.Node) bool {
		if as, ok := n.(*ast.AssignStmt); ok && len(as.Rhs) == 1 && as.Rhs[0] == rev[0] && len(as.Lhs) == 3 {
			if id, ok := as.Lhs[1].(*ast.Ident); ok {
				modifiedVar = info.ObjectOf(id)
			}
		}
		return true
	})
	refused := false
	var refusal *ast.IfStmt
	ast.Inspect(d.Decl.Body, func(n ast.Node) bool {
		is, ok := n.(*ast.IfStmt)
		if !ok {
			return true
		}
		ue, ok := ast.Unparen(is.Cond).(*ast.UnaryExpr)
		if !ok || ue.Op != token.NOT {
			return true
		}
		if id, ok := ue.X.(*ast.Ident); ok && info.Uses[id] == modifiedVar && modifiedVar != nil {
			if len(callsTo(info, is.Body, named("newErrAlreadyReverted"))) == 1 && astx.Terminates(info, is.Body.List) {
				refused = true
				refusal = is
			}
		}
		return true
	})
	okOrder := false
	if refusal != nil {
		// no other store call between RevertTransaction and the refusal
		okOrder = true
		for _, s := range index(c).Sites {
			if s.Encl == d.Decl && s.Call.Pos() > rev[0].End() && s.Call.Pos() < refusal.Pos() {
				if sig, _ := s.Callee.Type().(*types.Signature); sig != nil && sig.Recv() != nil && isCtrlStoreIface(sig.Recv().Type()) {
					okOrder = false
				}
			}
		}
	}
	c.Check(refused && okOrder, "DOM/revert", key+":already-reverted-refused-first", pos(c, d.Decl), "!modified -> ErrAlreadyReverted before any other store call",
		"revertTransaction must return ErrAlreadyReverted as soon as the UPDATE reports the row unmodified, before touching balances or committing a reverse transaction")
	c.Check(flow.Dominates(rev[0], com[0]), "DOM/revert", key+":order", pos(c, com[0]), "RevertTransaction dominates CommitTransaction", "CommitTransaction of the reverse is reachable without marking the original reverted")
	// success exits pass CommitTransaction
	stop := astx.ContainsCallTo(info, func(f *types.Func, _ *ast.CallExpr) bool { return f.Name() == "CommitTransaction" })
	for i, e := range flow.Exits() {
		if e.Return != nil && isErrorReturn(info, d.Decl.Body, e.Return) > 0 {
			continue
		}
		if flow.PathAvoiding(nil, e, stop) {
			c.Fail("DOM/revert", fmt.Sprintf("%s:success-exit#%d-without-commit", key, i), pos(c, d.Decl), "a success exit of revertTransaction is reachable without committing the reverse transaction")
		}
	}
	// the reverse is built from the original, wherever the building lives (Import itself or a helper)
	envs := scopeEnvs(c, d)
	root := envs[0]
	orig := ""
	if objs := resultObjs(info, d.Decl.Body, rev[0]); len(objs) > 0 && objs[0] != nil {
		for id, o := range info.Defs {
			if o == objs[0] {
				orig = root.origin(id)
			}
		}
		if orig == "" {
			for id, o := range info.Uses {
				if o == objs[0] {
					orig = root.origin(id)
					break
				}
			}
		}
	}
	if orig == "" || strings.HasPrefix(orig, "?") || len(com[0].Args) != 2 {
		c.Unrecognised("DOM/revert", key+":commits-the-reverse", pos(c, com[0]), "the original transaction returned by RevertTransaction was not identified")
		return
	}
	committed := root.origin(com[0].Args[1])
	switch {
	case committed == orig+".Reverse()":
		c.Pass("DOM/revert", key+":commits-the-reverse", pos(c, com[0]), "CommitTransaction(&originalTransaction.Reverse())")
	case strings.HasPrefix(committed, "?"):
		c.Unrecognised("DOM/revert", key+":commits-the-reverse", pos(c, com[0]), "the committed value is built in a way the rule does not read: "+committed)
	default:
		c.Fail("DOM/revert", key+":commits-the-reverse", pos(c, com[0]), "the committed transaction is not the Reverse() of the original (it is "+committed+")")
	}
	// timestamp selection
	var tsBad []string
	tsSeen := map[bool]bool{}
	nTS := 0
	for _, e := range envs {
		for _, call := range e.calls(named("WithTimestamp")) {
			if len(call.Args) != 1 {
				continue
			}
			nTS++
			arg := e.origin(call.Args[0])
			for _, ft := range e.facts(call.Pos()) {
				if !strings.HasSuffix(astx.SelectorPath(ft.Cond), ".AtEffectiveDate") && !strings.HasSuffix(astx.SelectorPath(ft.Cond), "AtEffectiveDate") {
					continue
				}
				want := orig + ".RevertedAt"
				if ft.Positive {
					want = orig + ".Timestamp"
				}
				tsSeen[ft.Positive] = true
				if arg != want {
					tsBad = append(tsBad, fmt.Sprintf("AtEffectiveDate=%v -> %s", ft.Positive, arg))
				}
			}
		}
	}
	tsMsg := "the reverse transaction's timestamp must be the original's timestamp under AtEffectiveDate and the revert time otherwise"
	switch {
	case len(tsBad) > 0:
		c.Fail("DOM/revert", key+":timestamp", pos(c, d.Decl), tsMsg+fmt.Sprintf(" (%v)", tsBad))
	case tsSeen[true] && tsSeen[false]:
		c.Pass("DOM/revert", key+":timestamp", pos(c, d.Decl), "AtEffectiveDate ? original.Timestamp : *original.RevertedAt")
	case nTS == 0:
		c.Fail("DOM/revert", key+":timestamp", pos(c, d.Decl), tsMsg+" (no WithTimestamp call)")
	default:
		c.Unrecognised("DOM/revert", key+":timestamp", pos(c, d.Decl), "the timestamp choice is not written as two WithTimestamp calls on the sides of an AtEffectiveDate test")
	}
	// metadata mark
	mark, nMark, markGot := false, 0, ""
	for _, e := range envs {
		for _, call := range e.calls(named("MarkReverts")) {
			if len(call.Args) != 2 {
				continue
			}
			nMark++
			a0, a1 := e.origin(call.Args[0]), e.origin(call.Args[1])
			markGot = a0 + ", " + a1
			if strings.HasSuffix(a0, ".Input.Metadata") && a1 == orig+".ID" {
				mark = true
			}
		}
	}
	if !mark && nMark > 0 && strings.Contains(markGot, "?") {
		c.Unrecognised("DOM/revert", key+":metadata-mark", pos(c, d.Decl), "MarkReverts arguments not read: "+markGot)
	} else {
		c.Check(mark, "DOM/revert", key+":metadata-mark", pos(c, d.Decl), "Metadata = MarkReverts(input metadata, original id)", "the reverse transaction is not marked with MarkReverts(parameters.Input.Metadata, *originalTransaction.ID) (got "+markGot+")")
	}
}

func rulePostingsReverse(c *core.Ctx) {
	d := fn(c, pkgCore, "Postings", "Reverse")
	if d == nil {
		return
	}
	info := d.Pkg.TypesInfo
	key := declKey(d)
	if len(d.Decl.Recv.List[0].Names) == 0 {
		c.Unrecognised("FLOW/postings-reverse", key+":on-copy", pos(c, d.Decl), "unnamed receiver")
		return
	}
	recvObj := info.ObjectOf(d.Decl.Recv.List[0].Names[0])
	// aliases of the receiver's backing array: the receiver, and locals defined as it or a slice of it
	alias := map[types.Object]bool{recvObj: true}
	for changed := true; changed; {
		changed = false
		ast.Inspect(d.Decl.Body, func(n ast.Node) bool {
			as, ok := n.(*ast.AssignStmt)
			if !ok || len(as.Lhs) != len(as.Rhs) {
				return true
			}
			for i, l := range as.Lhs {
				id, ok := l.(*ast.Ident)
				if !ok {
					continue
				}
				r := ast.Unparen(as.Rhs[i])
				if se, ok := r.(*ast.SliceExpr); ok {
					r = ast.Unparen(se.X)
				}
				if rid, ok := r.(*ast.Ident); ok && alias[info.ObjectOf(rid)] && !alias[info.ObjectOf(id)] {
					alias[info.ObjectOf(id)] = true
					changed = true
				}
			}
			return true
		})
	}
	rootObj := func(e ast.Expr) (types.Object, bool) {
		indexed := false
		for {
			switch v := ast.Unparen(e).(type) {
			case *ast.IndexExpr:
				indexed = true
				e = v.X
			case *ast.SelectorExpr:
				e = v.X
			case *ast.Ident:
				return info.ObjectOf(v), indexed
			default:
				return nil, false
			}
		}
	}
	var mutation ast.Node
	sideRefs, swaps, badSide := 0, 0, ast.Node(nil)
	var swapNodes []ast.Node
	hasSub, hasDec, helperCall, libReverse := false, false, false, false
	var orderSwap *ast.AssignStmt
	var mirrored []*ast.AssignStmt
	ix := index(c)
	ast.Inspect(d.Decl.Body, func(n ast.Node) bool {
		switch x := n.(type) {
		case *ast.SelectorExpr:
			if x.Sel.Name == "Source" || x.Sel.Name == "Destination" {
				sideRefs++
			}
		case *ast.BinaryExpr:
			if x.Op == token.SUB {
				hasSub = true
			}
		case *ast.IncDecStmt:
			if x.Tok == token.DEC {
				hasDec = true
			}
		case *ast.CallExpr:
			if f := astx.Callee(info, x); f != nil {
				if f.Pkg() != nil && f.Pkg().Path() == "slices" && f.Name() == "Reverse" {
					libReverse = true
				} else if dd := ix.Decls[f]; dd != nil && dd.Obj != d.Obj {
					helperCall = true
				}
			}
		case *ast.AssignStmt:
			for _, l := range x.Lhs {
				if o, indexed := rootObj(l); o != nil && alias[o] && indexed {
					mutation = x
				}
			}
			if x.Tok == token.SUB_ASSIGN {
				hasDec = true
			}
			// Source/Destination writes must be swaps
			for i, l := range x.Lhs {
				se, ok := ast.Unparen(l).(*ast.SelectorExpr)
				if !ok || (se.Sel.Name != "Source" && se.Sel.Name != "Destination") {
					continue
				}
				other := map[string]string{"Source": "Destination", "Destination": "Source"}[se.Sel.Name]
				okSwap := false
				if len(x.Lhs) == len(x.Rhs) {
					if rs, ok := ast.Unparen(x.Rhs[i]).(*ast.SelectorExpr); ok && rs.Sel.Name == other {
						okSwap = true
					}
				}
				if okSwap {
					swaps++
					swapNodes = append(swapNodes, x)
				} else {
					badSide = x
				}
			}
			// element swap x[i], x[j] = x[j], x[i]
			if len(x.Lhs) == 2 && len(x.Rhs) == 2 {
				l0, l1 := nospace(types.ExprString(x.Lhs[0])), nospace(types.ExprString(x.Lhs[1]))
				r0, r1 := nospace(types.ExprString(x.Rhs[0])), nospace(types.ExprString(x.Rhs[1]))
				_, i0 := ast.Unparen(x.Lhs[0]).(*ast.IndexExpr)
				_, i1 := ast.Unparen(x.Lhs[1]).(*ast.IndexExpr)
				if i0 && i1 && l0 == r1 && l1 == r0 && l0 != l1 {
					orderSwap = x
				}
			}
			// mirrored write out[<… - i>] = v
			if len(x.Lhs) == 1 {
				if ie, ok := ast.Unparen(x.Lhs[0]).(*ast.IndexExpr); ok {
					if be, ok := ast.Unparen(ie.Index).(*ast.BinaryExpr); ok && be.Op == token.SUB {
						mirrored = append(mirrored, x)
					}
				}
			}
		case *ast.CompositeLit:
			// Posting{Source: v.Destination, Destination: v.Source, …}
			for _, el := range x.Elts {
				kv, ok := el.(*ast.KeyValueExpr)
				if !ok {
					continue
				}
				k, ok := kv.Key.(*ast.Ident)
				if !ok || (k.Name != "Source" && k.Name != "Destination") {
					continue
				}
				other := map[string]string{"Source": "Destination", "Destination": "Source"}[k.Name]
				if rs, ok := ast.Unparen(kv.Value).(*ast.SelectorExpr); ok && rs.Sel.Name == other {
					swaps++
					swapNodes = append(swapNodes, x)
				} else {
					badSide = x
				}
			}
		}
		return true
	})
	// the loop around n: "all" when it visits every element, "half" when bounded by len/2
	loopKind := func(n ast.Node) string {
		kind := ""
		ast.Inspect(d.Decl.Body, func(l ast.Node) bool {
			switch x := l.(type) {
			case *ast.RangeStmt:
				if x.Body.Pos() <= n.Pos() && n.End() <= x.Body.End() {
					kind = "all"
				}
			case *ast.ForStmt:
				if x.Body.Pos() <= n.Pos() && n.End() <= x.Body.End() {
					kind = "?"
					if be, ok := x.Cond.(*ast.BinaryExpr); ok {
						y := nospace(types.ExprString(be.Y))
						_, yIsIdent := ast.Unparen(be.Y).(*ast.Ident)
						_, xIsIdent := ast.Unparen(be.X).(*ast.Ident)
						switch {
						case be.Op == token.LSS && xIsIdent && yIsIdent:
							// two-pointer walk `i < j`: visits pairs, never the middle element of an odd count
							kind = "pairs"
						case strings.HasSuffix(y, "/2"):
							kind = "half"
						case strings.HasPrefix(y, "len(") && strings.HasSuffix(y, ")") && be.Op == token.LSS:
							kind = "all"
						case be.Op == token.GEQ && y == "0":
							kind = "all"
						}
					}
				}
			}
			return true
		})
		return kind
	}
	if mutation != nil {
		c.Fail("FLOW/postings-reverse", key+":on-copy", pos(c, mutation), "Postings.Reverse mutates its receiver: the original transaction's postings would be rewritten")
	} else {
		c.Pass("FLOW/postings-reverse", key+":on-copy", pos(c, d.Decl), "no element of the receiver (or of an alias of it) is written")
	}
	sideMsg := "Postings.Reverse does not swap source and destination of every posting"
	switch {
	case badSide != nil:
		c.Fail("FLOW/postings-reverse", key+":swaps-sides", pos(c, badSide), sideMsg+" (a Source/Destination write that is not a swap)")
	case swaps >= 2:
		k := loopKind(swapNodes[0])
		switch k {
		case "all":
			c.Pass("FLOW/postings-reverse", key+":swaps-sides", pos(c, d.Decl), "every element: Source <-> Destination")
		case "half":
			c.Fail("FLOW/postings-reverse", key+":swaps-sides", pos(c, swapNodes[0]), sideMsg+" (the swap runs over half of the postings)")
		case "pairs":
			// fine only when the middle element is handled outside the loop as well
			outside := false
			for _, sn := range swapNodes {
				if loopKind(sn) != "pairs" {
					outside = true
				}
			}
			if outside {
				c.Unrecognised("FLOW/postings-reverse", key+":swaps-sides", pos(c, swapNodes[0]), "side swap split between a two-pointer loop and other code")
			} else {
				c.Fail("FLOW/postings-reverse", key+":swaps-sides", pos(c, swapNodes[0]), sideMsg+" (the swap runs inside a two-pointer loop `i < j`: with an odd number of postings the middle one keeps its source and destination, so the revert re-applies it instead of undoing it)")
			}
		default:
			c.Unrecognised("FLOW/postings-reverse", key+":swaps-sides", pos(c, swapNodes[0]), "the loop around the side swap is not one the rule reads")
		}
	case sideRefs == 0 && !helperCall:
		c.Fail("FLOW/postings-reverse", key+":swaps-sides", pos(c, d.Decl), sideMsg+" (Source/Destination are never touched)")
	default:
		c.Unrecognised("FLOW/postings-reverse", key+":swaps-sides", pos(c, d.Decl), "no Source<->Destination swap in a shape the rule reads")
	}
	orderMsg := "Postings.Reverse does not reverse the order of the postings"
	switch {
	case orderSwap != nil:
		switch loopKind(orderSwap) {
		case "half", "pairs":
			c.Pass("FLOW/postings-reverse", key+":reverses-order", pos(c, d.Decl), "element order reversed (pairwise swap over half)")
		case "all":
			c.Fail("FLOW/postings-reverse", key+":reverses-order", pos(c, orderSwap), orderMsg+" (the pairwise swap runs over all indexes and undoes itself)")
		default:
			c.Unrecognised("FLOW/postings-reverse", key+":reverses-order", pos(c, orderSwap), "loop around the element swap not read")
		}
	case len(mirrored) > 0:
		if loopKind(mirrored[0]) == "all" {
			c.Pass("FLOW/postings-reverse", key+":reverses-order", pos(c, d.Decl), "element order reversed (mirrored index write over all elements)")
		} else {
			c.Unrecognised("FLOW/postings-reverse", key+":reverses-order", pos(c, mirrored[0]), "loop around the mirrored write not read")
		}
	case libReverse:
		c.Pass("FLOW/postings-reverse", key+":reverses-order", pos(c, d.Decl), "slices.Reverse")
	case !hasSub && !hasDec && !helperCall:
		c.Fail("FLOW/postings-reverse", key+":reverses-order", pos(c, d.Decl), orderMsg+" (no index arithmetic, descending loop or reverse call)")
	default:
		c.Unrecognised("FLOW/postings-reverse", key+":reverses-order", pos(c, d.Decl), "order reversal not in a shape the rule reads")
	}
	// Transaction.Reverse uses it
	if t := fn(c, pkgCore, "Transaction", "Reverse"); t != nil {
		uses := false
		for _, call := range callsTo(t.Pkg.TypesInfo, t.Decl.Body, named("Reverse")) {
			if strings.HasSuffix(astx.SelectorPath(recvExpr(call)), ".Postings") {
				uses = true
			}
		}
		c.Check(uses, "FLOW/postings-reverse", declKey(t)+":uses-postings-reverse", pos(c, t.Decl), "Transaction.Reverse = tx.Postings.Reverse()", "Transaction.Reverse no longer derives its postings from Postings.Reverse")
	}
}

// ================= C18 =================

func checkC18(c *core.Ctx) {
	c.Decide("rows of accounts are inserted only by UpsertAccounts and UpdateAccountsMetadata; insertion_date is assigned by no UPDATE anywhere; first_usage is assigned only through a minimum (LEAST(new, old) or the equivalent CASE); after CommitTransaction every success path of createTransaction and the import of a created transaction upserts the transaction's accounts on the same store; AccountsWithDefaultMetadata takes FirstUsage from the transaction timestamp and covers involved accounts plus accounts with metadata; InvolvedAccounts lists both sides of every posting")
	c.NotDecided("the result of the upsert CTE under concurrency")
	c.Trust("Postgres LEAST/CASE semantics")
	ruleAccountsLifecycle(c)
	// listing at a point in time filters accounts on first_usage (temporal typing shared with C05)
	ruleTemporalClauses(c)
}

// ruleAccountsLifecycle: who creates accounts, immutability of insertion_date, first_usage only
// lowered (and every row that needs lowering reached), accounts upserted after every commit.
func ruleAccountsLifecycle(c *core.Ctx) {
	ws := tableWriters(c)
	for _, w := range opaqueWriters(ws) {
		c.Unknown("WMC/accounts", "opaque-writer:"+w.Origin, w.Pos, w.Opaque)
	}
	allowedIns := map[string]bool{"go:" + pkgStore + ".(Store).UpsertAccounts": true, "go:" + pkgStore + ".(Store).UpdateAccountsMetadata": true}
	n := 0
	for _, w := range writersOf(ws, "accounts") {
		n++
		key := "accounts:" + w.Origin + ":" + w.Kind
		if w.Kind == "insert" || w.Kind == "upsert" {
			c.Check(allowedIns[w.Origin], "WMC/accounts", key+":inserter", w.Pos, "allowed inserter", w.Origin+" inserts rows into accounts; only UpsertAccounts and UpdateAccountsMetadata may create accounts")
		}
		if w.Kind == "delete" {
			c.Fail("WMC/accounts", key, w.Pos, "accounts rows are deleted: an account that was used must stay listed")
		}
		if w.ColsOpaque != "" {
			c.Unknown("WMC/accounts", key+":columns", w.Pos, w.ColsOpaque)
			continue
		}
		if _, ok := w.Assign["insertion_date"]; ok {
			c.Fail("WMC/insertion-date", key, w.Pos, "insertion_date is assigned by an UPDATE: it must never change after the account was created")
		} else if w.Kind == "update" || w.Kind == "upsert" {
			c.Pass("WMC/insertion-date", key, w.Pos, "does not assign insertion_date")
		}
		if e, ok := w.Assign["first_usage"]; ok {
			cn := sqlfe.Canon(stripQual(e, "accounts"))
			okMin := false
			switch cn {
			case "least(d.first_usage, a.first_usage)", "least(a.first_usage, d.first_usage)":
				okMin = true
			case "case[(excluded.first_usage < first_usage); excluded.first_usage; else first_usage]":
				okMin = true
			}
			c.Check(okMin, "SQLS/first-usage-min", key, w.Pos, "first_usage = min(new, old)", "first_usage is assigned "+cn+": it may only be lowered (minimum of the stored and the new date)")
			// an UPDATE arm must reach every row whose first_usage has to be lowered: every
			// WHERE conjunct that is not the row identification admits `new < old`
			if w.SQL != nil && w.SQL.Kind == "update" && w.SQL.Where != nil {
				okReach := true
				bad := ""
				for _, cj := range sqlfe.Conjuncts(w.SQL.Where) {
					cc := sqlfe.Canon(cj)
					if strings.Contains(cc, "address") && strings.Contains(cc, " = ") && !strings.Contains(cc, " or ") {
						continue // row identification
					}
					if strings.Contains(cc, "ledger") && strings.Contains(cc, " = ") && !strings.Contains(cc, " or ") {
						continue // ledger scoping
					}
					admits := false
					for _, dj := range sqlfe.Disjuncts(sqlfe.Unparen(cj)) {
						dc := sqlfe.Canon(dj)
						if dc == "(d.first_usage < a.first_usage)" || dc == "(a.first_usage > d.first_usage)" {
							admits = true
						}
					}
					if !admits {
						okReach = false
						bad = cc
					}
				}
				c.Check(okReach, "SQLS/first-usage-min", key+":reaches-earlier-usage", w.Pos, "the update reaches rows with an earlier new first_usage", "the UPDATE that lowers first_usage is restricted by "+bad+", which excludes an account whose only change is an earlier first usage: a back-dated transaction no longer lowers first_usage and point-in-time listings miss the account")
			}
		}
	}
	c.Floor("WMC/accounts", "writers of accounts", n, 4)
	// upsert follows commit
	for _, spec := range []struct{ name string }{{"createTransaction"}, {"importLog"}} {
		d := fn(c, pkgCtrl, "DefaultController", spec.name)
		if d == nil {
			continue
		}
		info := d.Pkg.TypesInfo
		for i, com := range callsTo(info, d.Decl.Body, named("CommitTransaction")) {
			// only the created-transaction arm of importLog upserts accounts
			if spec.name == "importLog" && !strings.Contains(astx.ExprString(com.Args[1]), "payload.Transaction") {
				continue
			}
			body := astx.InnermostFuncBody(d.Decl, com)
			flow := astx.NewFlow(info, body)
			stop := astx.ContainsCallTo(info, func(f *types.Func, _ *ast.CallExpr) bool { return f.Name() == "upsertTransactionAccounts" })
			bad := false
			for _, e := range flow.Exits() {
				if e.Return != nil && isErrorReturn(info, body, e.Return) > 0 {
					continue
				}
				if e.Return != nil && e.Return.Pos() < com.Pos() {
					continue
				}
				if flow.Reachable(com, exitNode(e, body)) && flow.PathAvoiding(com, e, stop) {
					bad = true
				}
			}
			c.Check(!bad, "DOM/accounts-upserted", fmt.Sprintf("%s:after-commit#%d", declKey(d), i), pos(c, com), "upsertTransactionAccounts on every success path after CommitTransaction", "a success path after CommitTransaction skips upsertTransactionAccounts: accounts used by the transaction would not be listed / first_usage not lowered")
			for _, up := range callsTo(info, d.Decl.Body, named("upsertTransactionAccounts")) {
				if len(up.Args) >= 2 && up.Pos() > com.Pos() {
					c.Check(astx.ExprString(up.Args[1]) == astx.ExprString(recvExpr(com)), "DOM/accounts-upserted", fmt.Sprintf("%s:same-store#%d", declKey(d), i), pos(c, up), "same store as CommitTransaction", "accounts are upserted on a different store than the one that committed the transaction")
				}
			}
		}
	}
	// AccountsWithDefaultMetadata
	if d := fn(c, pkgCore, "Transaction", "AccountsWithDefaultMetadata"); d != nil {
		info := d.Pkg.TypesInfo
		fu := ""
		ast.Inspect(d.Decl.Body, func(n ast.Node) bool {
			if cl, ok := n.(*ast.CompositeLit); ok && astx.RecvTypeName(info.TypeOf(cl)) == "Account" {
				if v := fieldOfCompositeLit(cl, "FirstUsage"); v != nil {
					fu = astx.SelectorPath(v)
				}
			}
			return true
		})
		c.Check(strings.HasSuffix(fu, ".Timestamp"), "FLOW/accounts-with-default-metadata", declKey(d)+":first-usage", pos(c, d.Decl), "FirstUsage = tx.Timestamp", "accounts are upserted with FirstUsage = "+fu+", expected the transaction's effective timestamp")
		inv := len(callsTo(info, d.Decl.Body, named("InvolvedAccounts"))) > 0
		keys := len(callsTo(info, d.Decl.Body, named("Keys"))) > 0
		c.Check(inv && keys, "FLOW/accounts-with-default-metadata", declKey(d)+":account-set", pos(c, d.Decl), "involved accounts ∪ accounts with metadata", "the upserted account set is no longer InvolvedAccounts() plus the keys of the account metadata")
	}
	if d := fn(c, pkgCore, "Transaction", "InvolvedAccounts"); d != nil {
		both := false
		ast.Inspect(d.Decl.Body, func(n ast.Node) bool {
			if call, ok := n.(*ast.CallExpr); ok {
				if id, ok := call.Fun.(*ast.Ident); ok && id.Name == "append" {
					s, dd := false, false
					for _, a := range call.Args[1:] {
						if roleOfExpr(a) == "Source" {
							s = true
						}
						if roleOfExpr(a) == "Destination" {
							dd = true
						}
					}
					if s && dd {
						both = true
					}
				}
			}
			return true
		})
		c.Check(both, "FLOW/involved-accounts", declKey(d), pos(c, d.Decl), "source and destination of every posting", "InvolvedAccounts does not collect both the source and the destination of each posting")
	}
}

func exitNode(e astx.Exit, body *ast.BlockStmt) ast.Node {
	if e.Return != nil {
		return e.Return
	}
	return body.List[len(body.List)-1]
}

// ================= C06 =================

func checkC06(c *core.Ctx) {
	c.Decide("GetBalances is one statement that inserts a zero row for every requested (account, asset) in a CTE (ON CONFLICT DO NOTHING) and selects the same keys FOR UPDATE ordered by (accounts_address, asset), scoped to the ledger, on the store's db; both numscript runtimes obtain balances only through adapters that call GetBalances on the store they were built with, and createTransaction hands Execute the same transaction-scoped store it later commits on (TXH); revertTransaction reads the balances of the original destinations on that store before committing, applies exactly (balance −amount to the reverse's source, +amount to its destination when tracked), refuses with insufficient funds for any negative non-world balance unless Force, and nothing but `world` is exempt; withdrawAll takes funds only when balance+overdraft is positive")
	c.NotDecided("READ COMMITTED row-lock semantics and the VM's arithmetic over all programs (C23)")
	c.Trust("SELECT … FOR UPDATE holds row locks until the end of the transaction")
	ruleGetBalancesShape(c)
	ruleTxHandleOwnership(c)
	ruleExecuteStore(c)
	ruleRevertBalanceCheck(c)
	ruleWithdrawAll(c)
	ruleVMBalanceTracking(c)
	ruleReadCommitted(c)
}

func ruleGetBalancesShape(c *core.Ctx) {
	d := fn(c, pkgStore, "Store", "GetBalances")
	if d == nil {
		return
	}
	key := declKey(d)
	m := bunModel(c, pkgStore)
	var sel, ins *bunq.Statement
	for _, s := range stmtsIn(m, d) {
		switch s.Kind {
		case "select":
			sel = s
		case "insert":
			ins = s
		}
	}
	if sel == nil || ins == nil {
		c.Fail("SQLS/get-balances", key+":statements", pos(c, d.Decl), "GetBalances no longer consists of a SELECT with an INSERT CTE")
		return
	}
	// insert is the CTE of the select
	isCTE := false
	for _, cl := range sel.ClausesNamed("With") {
		for _, sub := range cl.Subs {
			if sub == ins {
				isCTE = true
			}
		}
	}
	c.Check(isCTE && sel.Terminal == "Scan", "SQLS/get-balances", key+":single-statement", posOf(c, sel.Pos()), "insert CTE + select executed as one statement", "the zero-row insert is not a CTE of the locking select (or the select is not executed): rows could be created and locked in different statements")
	nothing := false
	for _, cl := range ins.ClausesNamed("On") {
		if len(cl.SQL) == 1 {
			if _, dn, _, ok := parseOnConflict(cl.SQL[0]); ok && dn {
				nothing = true
			}
		}
	}
	c.Check(nothing && len(ins.ClausesNamed("Where")) == 0, "SQLS/get-balances", key+":insert-do-nothing", posOf(c, ins.Pos()), "on conflict do nothing, unconditional", "the zero-row insert must be unconditional with ON CONFLICT DO NOTHING: a never-used (account, asset) would otherwise have no row to lock")
	// same model variable
	modelOf := func(s *bunq.Statement) string {
		for _, cl := range s.ClausesNamed("Model") {
			if len(cl.Args) == 1 {
				return astx.ExprString(cl.Args[0])
			}
		}
		return ""
	}
	c.Check(modelOf(sel) == modelOf(ins) && modelOf(sel) != "", "SQLS/get-balances", key+":same-key-set", posOf(c, sel.Pos()), "insert and select share the model rows", "the inserted key set and the locked key set are built from different slices")
	sameTab := len(sel.Tables()) >= 1 && len(ins.Tables()) == 1 && ins.Tables()[0] == "accounts_volumes" && stmtMayRead(sel.Tables(), "accounts_volumes")
	c.Check(sameTab, "SQLS/get-balances", key+":table", posOf(c, sel.Pos()), "accounts_volumes", "GetBalances does not insert into and lock accounts_volumes")
	forUpd := false
	for _, cl := range sel.ClausesNamed("For") {
		if len(cl.SQL) == 1 && strings.EqualFold(strings.TrimSpace(cl.SQL[0]), "update") {
			forUpd = true
		}
	}
	c.Check(forUpd, "SQLS/get-balances", key+":for-update", posOf(c, sel.Pos()), "FOR UPDATE", "the balance read does not lock the rows FOR UPDATE: two concurrent transactions could both spend the same funds")
	var order []string
	for _, cl := range sel.ClausesNamed("Order") {
		order = append(order, cl.SQL...)
	}
	c.Check(len(order) == 1 && strings.ReplaceAll(order[0], " ", "") == "accounts_address,asset", "SQLS/get-balances", key+":lock-order", posOf(c, sel.Pos()), "order by accounts_address, asset", fmt.Sprintf("rows are locked in order %v; a fixed (accounts_address, asset) order is what prevents lock-order deadlocks between writers", order))
	ok, why := stmtLedgerScoped(c, sel, key)
	c.Check(ok, "SQLS/get-balances", key+":ledger-scoped", posOf(c, sel.Pos()), why, "the locking select is not restricted to the ledger: "+why)
	// the condition list and the model rows are built from the same query map (two loops over `query`)
	loops := 0
	ast.Inspect(d.Decl.Body, func(n ast.Node) bool {
		if rs, ok := n.(*ast.RangeStmt); ok && astx.SelectorPath(rs.X) == "query" {
			loops++
		}
		return true
	})
	c.Check(loops >= 2, "SQLS/get-balances", key+":built-from-query", pos(c, d.Decl), "conditions and rows derive from the requested query", "the locked conditions or the inserted rows are no longer built from the requested (account, asset) map")
}

// ruleExecuteStore: the numscript runtime executes against the store the transaction is committed on.
func ruleExecuteStore(c *core.Ctx) {
	d := fn(c, pkgCtrl, "DefaultController", "createTransaction")
	if d == nil {
		return
	}
	info := d.Pkg.TypesInfo
	key := declKey(d)
	var execArg, commitRecv string
	for _, call := range callsTo(info, d.Decl.Body, named("Execute")) {
		if len(call.Args) == 3 {
			execArg = astx.ExprString(call.Args[1])
			cls := rootClass(info, d, call.Args[1])
			c.Check(strings.HasPrefix(cls, "param:"), "TXH/execute-store", key+":execute-arg", pos(c, call), "Execute(ctx, <operation store>, vars)", "the numscript runtime is executed against "+cls+": the balances it locks are not locked in the transaction that commits the postings")
		}
	}
	for _, call := range callsTo(info, d.Decl.Body, named("CommitTransaction")) {
		commitRecv = astx.ExprString(recvExpr(call))
	}
	c.Check(execArg != "" && execArg == commitRecv, "TXH/execute-store", key+":same-store", pos(c, d.Decl), "Execute and CommitTransaction share one store", fmt.Sprintf("Execute runs on %q but CommitTransaction on %q", execArg, commitRecv))
}

func ruleRevertBalanceCheck(c *core.Ctx) {
	d := fn(c, pkgCtrl, "DefaultController", "revertTransaction")
	if d == nil {
		return
	}
	info := d.Pkg.TypesInfo
	key := declKey(d)
	flow := astx.NewFlow(info, d.Decl.Body)
	scope := fnScope(c, d, 1)
	envs := scopeEnvs(c, d)
	root := envs[0]
	gb := callsTo(info, d.Decl.Body, named("GetBalances"))
	com := callsTo(info, d.Decl.Body, named("CommitTransaction"))
	rev := callsTo(info, d.Decl.Body, named("RevertTransaction"))
	if len(gb) == 0 && len(scopeCalls(scope, named("GetBalances"))) == 0 {
		c.Fail("DOM/revert-balance-check", key+":calls", pos(c, d.Decl), "revertTransaction no longer reads the balances of the accounts the revert debits")
		return
	}
	if len(gb) != 1 || len(com) != 1 || len(rev) != 1 {
		c.Unrecognised("DOM/revert-balance-check", key+":calls", pos(c, d.Decl), "expected one RevertTransaction, one GetBalances and one CommitTransaction call in revertTransaction itself")
		return
	}
	c.Check(flow.Dominates(rev[0], gb[0]) && flow.Dominates(gb[0], com[0]), "DOM/revert-balance-check", key+":order", pos(c, gb[0]), "RevertTransaction -> GetBalances -> CommitTransaction", "balances are not read (and locked) between marking the original reverted and committing the reverse")
	// query = originalTransaction.InvolvedDestinations(), unmodified
	orig := ""
	if objs := resultObjs(info, d.Decl.Body, rev[0]); len(objs) > 0 && objs[0] != nil {
		for id, o := range info.Defs {
			if o == objs[0] {
				orig = root.origin(id)
			}
		}
		for id, o := range info.Uses {
			if orig == "" && o == objs[0] {
				orig = root.origin(id)
			}
		}
	}
	if len(gb[0].Args) == 2 && orig != "" {
		q := root.origin(gb[0].Args[1])
		var argObj types.Object
		if id, ok := ast.Unparen(gb[0].Args[1]).(*ast.Ident); ok {
			argObj = info.ObjectOf(id)
		}
		mutated := false
		ast.Inspect(d.Decl.Body, func(n ast.Node) bool {
			switch x := n.(type) {
			case *ast.AssignStmt:
				for _, l := range x.Lhs {
					if ie, ok := l.(*ast.IndexExpr); ok && argObj != nil && usesObj(info, ie.X, argObj) {
						mutated = true
					}
				}
			case *ast.CallExpr:
				if id, ok := x.Fun.(*ast.Ident); ok && (id.Name == "delete" || id.Name == "clear") && len(x.Args) >= 1 && argObj != nil && usesObj(info, x.Args[0], argObj) {
					mutated = true
				}
			}
			return true
		})
		switch {
		case mutated:
			c.Fail("DOM/revert-balance-check", key+":balance-query", pos(c, gb[0]), "the balance query built from the original transaction's destinations is modified before it is run")
		case strings.HasPrefix(q, "?"):
			c.Unrecognised("DOM/revert-balance-check", key+":balance-query", pos(c, gb[0]), "balance query not read: "+q)
		default:
			c.Check(q == orig+".InvolvedDestinations()", "DOM/revert-balance-check", key+":balance-query", pos(c, gb[0]), "GetBalances(original.InvolvedDestinations())", "the balances checked are not exactly those of the original transaction's destinations (the accounts the revert debits); query is "+q)
		}
	} else {
		c.Unrecognised("DOM/revert-balance-check", key+":balance-query", pos(c, gb[0]), "GetBalances arguments / original transaction not identified")
	}
	// FLOW
	effs := amountEffectsScope(scope)
	got := effectSigs(effs)
	if len(effs) == 0 && len(scope) > 1 {
		c.Unrecognised("FLOW/revert-balances", key+":effects", pos(c, d.Decl), "no balance arithmetic found in revertTransaction or its direct helpers")
	} else {
		c.Check(strings.Join(got, " ") == "(balance,+,Destination) (balance,-,Source)", "FLOW/revert-balances", key+":effects", pos(c, d.Decl), strings.Join(got, " "), fmt.Sprintf("the simulated balances change by %v, expected (balance,-,Source) (balance,+,Destination) over the reverse's postings", got))
	}
	for _, e := range effs {
		// the destination side is legitimately conditional on the account being tracked; what
		// must not happen is one side being the alternative of the other
		if e.Exclusive {
			c.Fail("FLOW/revert-balances", key+":independent:"+e.Sig(), posOf(c, e.Pos), "the "+e.Role+" side of the simulated balance change is applied only when the other side's test failed")
		}
	}
	// the insufficient-funds refusal
	rejects := scopeCalls(scope, named("NewErrInsufficientFund"))
	if len(rejects) == 0 {
		c.Fail("DOM/revert-balance-check", key+":refusal", pos(c, d.Decl), "no branch returns insufficient funds for a negative balance")
		return
	}
	var revertedFlag types.Object
	if objs := resultObjs(info, d.Decl.Body, rev[0]); len(objs) > 1 {
		revertedFlag = objs[1]
	}
	for i, sc := range rejects {
		rkey := fmt.Sprintf("%s:refusal#%d", key, i)
		fs, complete := scopeFacts(d, sc)
		hasNeg, hasWorld, forceNeg := false, false, false
		var others []string
		for _, ft := range fs {
			txt := nospace(types.ExprString(ft.Cond))
			be, isBin := ft.Cond.(*ast.BinaryExpr)
			switch {
			case isErrNilTest(info, ft.Cond):
			case revertedFlag != nil && usesObj(info, ft.Cond, revertedFlag):
			case strings.HasSuffix(astx.SelectorPath(ft.Cond), ".Force") || astx.SelectorPath(ft.Cond) == "Force":
				if ft.Positive {
					others = append(others, "+"+txt)
				} else {
					forceNeg = true
				}
			case isBin && strings.Contains(txt, ".Cmp(") && isZeroConst(info, be.Y):
				if (be.Op == token.LSS && ft.Positive) || (be.Op == token.GEQ && !ft.Positive) {
					hasNeg = true
				} else {
					others = append(others, fmt.Sprintf("%v:%s", ft.Positive, txt))
				}
			case isBin && (be.Op == token.EQL || be.Op == token.NEQ) && (isWorldConst(info, be.X) || isWorldConst(info, be.Y)):
				if (be.Op == token.NEQ && ft.Positive) || (be.Op == token.EQL && !ft.Positive) {
					hasWorld = true
				} else {
					others = append(others, fmt.Sprintf("%v:%s", ft.Positive, txt))
				}
			case isBin && be.Op == token.EQL && isErrNilTestLoose(info, be):
			default:
				if _, isIdent := ft.Cond.(*ast.Ident); isIdent && ft.Positive && txt == "ok" {
					others = append(others, "+ok")
				} else {
					others = append(others, fmt.Sprintf("%v:%s", ft.Positive, txt))
				}
			}
		}
		opaque := !complete || factsOpaque(c, info, fs)
		switch {
		case len(others) > 0 && !opaque:
			c.Fail("DOM/revert-balance-check", rkey+":refusal-condition", pos(c, sc.Call), fmt.Sprintf("the refusal is also guarded by %v; it must be exactly `balance < 0 && account != \"world\"`, skipped only by Force (world is the only account allowed to go negative)", others))
		case hasNeg && hasWorld && len(others) == 0:
			c.Pass("DOM/revert-balance-check", rkey+":refusal-condition", pos(c, sc.Call), "negative && account != world")
			c.Check(forceNeg, "DOM/revert-balance-check", rkey+":only-force-skips", pos(c, sc.Call), "skipped only when Force", "the balance check is not under the negative side of Force")
		case opaque:
			c.Unrecognised("DOM/revert-balance-check", rkey+":refusal-condition", pos(c, sc.Call), "the refusal is guarded by conditions the rule does not read")
		default:
			c.Fail("DOM/revert-balance-check", rkey+":refusal-condition", pos(c, sc.Call), fmt.Sprintf("the refusal condition must be exactly `balance < 0 && account != \"world\"` (negative-test=%v world-exemption=%v)", hasNeg, hasWorld))
		}
		// the refusal is returned, before the reverse is committed
		returned := false
		ast.Inspect(sc.D.Decl.Body, func(n ast.Node) bool {
			if r, ok := n.(*ast.ReturnStmt); ok && r.Pos() <= sc.Call.Pos() && sc.Call.End() <= r.End() {
				returned = true
			}
			return true
		})
		p := sc.Call.Pos()
		if sc.D != d {
			p = token.NoPos
			for _, site := range callsTo(info, d.Decl.Body, func(f *types.Func) bool { return f == sc.D.Obj || f.Origin() == sc.D.Obj }) {
				p = site.Pos()
			}
		}
		c.Shape(p != token.NoPos, returned && p < com[0].Pos(), "DOM/revert-balance-check", rkey+":refusal-before-commit", pos(c, sc.Call), "returns before CommitTransaction", "the insufficient-funds branch does not leave the function before the reverse is committed")
	}
}

func ruleWithdrawAll(c *core.Ctx) {
	d := fn(c, pkgVM, "Machine", "withdrawAll")
	if d == nil {
		return
	}
	info := d.Pkg.TypesInfo
	key := declKey(d)
	// amountTaken assigned a non-zero value only under balanceWithOverdraft.Gt(Zero), where
	// balanceWithOverdraft = balance.Add(overdraft)
	var sumVar types.Object
	ast.Inspect(d.Decl.Body, func(n ast.Node) bool {
		if as, ok := n.(*ast.AssignStmt); ok && as.Tok == token.DEFINE && len(as.Rhs) == 1 {
			if call, ok := as.Rhs[0].(*ast.CallExpr); ok {
				if f := astx.Callee(info, call); f != nil && f.Name() == "Add" && len(call.Args) == 1 && canonPath(d, call.Args[0]) == "p2" && isBalanceLookup(info, d.Decl.Body, recvExpr(call)) {
					if id, ok := as.Lhs[0].(*ast.Ident); ok {
						sumVar = info.Defs[id]
					}
				}
			}
		}
		return true
	})
	if sumVar == nil {
		c.Fail("DOM/withdraw-all", key+":bound", pos(c, d.Decl), "withdrawAll no longer computes balance.Add(overdraft) as the amount available")
		return
	}
	guarded := func(p token.Pos) bool {
		for _, f := range astx.FactsAt(info, d.Decl.Body, p) {
			if call, ok := ast.Unparen(f.Cond).(*ast.CallExpr); ok && f.Positive {
				if cf := astx.Callee(info, call); cf != nil && cf.Name() == "Gt" && len(call.Args) == 1 && strings.HasSuffix(astx.SelectorPath(call.Args[0]), "Zero") {
					if id, ok := ast.Unparen(recvExpr(call)).(*ast.Ident); ok && info.Uses[id] == sumVar {
						return true
					}
				}
			}
		}
		return false
	}
	// the amount taken: the variable that receives the available amount
	var taken types.Object
	ast.Inspect(d.Decl.Body, func(n ast.Node) bool {
		as, ok := n.(*ast.AssignStmt)
		if !ok || len(as.Lhs) != 1 || len(as.Rhs) != 1 {
			return true
		}
		if rid, isID := ast.Unparen(as.Rhs[0]).(*ast.Ident); isID && info.Uses[rid] == sumVar {
			if l, isL := as.Lhs[0].(*ast.Ident); isL {
				taken = info.ObjectOf(l)
			}
		}
		return true
	})
	if taken == nil {
		c.Unrecognised("DOM/withdraw-all", key+":taken-only-when-positive", pos(c, d.Decl), "the variable receiving the available amount was not identified")
		return
	}
	okAssign, badAssign := 0, 0
	ast.Inspect(d.Decl.Body, func(n ast.Node) bool {
		as, ok := n.(*ast.AssignStmt)
		if !ok || len(as.Lhs) != 1 || len(as.Rhs) != 1 {
			return true
		}
		l, isL := as.Lhs[0].(*ast.Ident)
		if !isL || info.ObjectOf(l) != taken {
			return true
		}
		if strings.HasSuffix(astx.SelectorPath(as.Rhs[0]), "Zero") {
			return true // the initial "nothing taken"
		}
		rid, isID := ast.Unparen(as.Rhs[0]).(*ast.Ident)
		if !isID || info.Uses[rid] != sumVar {
			badAssign++
			return true
		}
		if guarded(as.Pos()) {
			okAssign++
		} else {
			badAssign++
		}
		return true
	})
	c.Check(okAssign == 1 && badAssign == 0, "DOM/withdraw-all", key+":taken-only-when-positive", pos(c, d.Decl), "amountTaken = balance+overdraft only if that is > 0", "withdrawAll may take an amount that is not bounded by max(0, balance + overdraft)")
	// … and what is left is minus the allowance: the tracked balance becomes overdraft.Neg(), so
	// a second use of the same source in the script finds nothing more to take
	left, wrongLeft := 0, 0
	ast.Inspect(d.Decl.Body, func(n ast.Node) bool {
		as, ok := n.(*ast.AssignStmt)
		if !ok || len(as.Lhs) != 1 || len(as.Rhs) != 1 {
			return true
		}
		if _, isIx := ast.Unparen(as.Lhs[0]).(*ast.IndexExpr); !isIx || !guarded(as.Pos()) {
			return true
		}
		okNeg := false
		if call, isCall := ast.Unparen(as.Rhs[0]).(*ast.CallExpr); isCall && len(call.Args) == 0 {
			if cf := astx.Callee(info, call); cf != nil && cf.Name() == "Neg" && canonPath(d, recvExpr(call)) == "p2" {
				okNeg = true
			}
		}
		if okNeg {
			left++
		} else {
			wrongLeft++
		}
		return true
	})
	switch {
	case wrongLeft > 0:
		c.Fail("DOM/withdraw-all", key+":left-at-minus-allowance", pos(c, d.Decl), "after emptying a source withdrawAll records a balance other than minus the overdraft allowance: a later take from the same source in the same script can use the allowance again (the account ends below its allowance)")
	case left >= 1:
		c.Pass("DOM/withdraw-all", key+":left-at-minus-allowance", pos(c, d.Decl), "balance := overdraft.Neg() once everything available was taken")
	default:
		c.Fail("DOM/withdraw-all", key+":left-at-minus-allowance", pos(c, d.Decl), "withdrawAll takes what is available without lowering the tracked balance: a later take from the same source in the same script finds the same funds again")
	}
}

// isBalanceLookup: e is a local obtained from a (comma-ok) map lookup, i.e. the tracked balance.
func isBalanceLookup(info *types.Info, body *ast.BlockStmt, e ast.Expr) bool {
	id, ok := ast.Unparen(e).(*ast.Ident)
	if !ok {
		return false
	}
	obj := info.ObjectOf(id)
	found := false
	ast.Inspect(body, func(n ast.Node) bool {
		as, ok := n.(*ast.AssignStmt)
		if !ok || len(as.Rhs) != 1 || len(as.Lhs) == 0 {
			return true
		}
		l, ok := as.Lhs[0].(*ast.Ident)
		if !ok || info.ObjectOf(l) != obj {
			return true
		}
		if _, isIx := ast.Unparen(as.Rhs[0]).(*ast.IndexExpr); isIx {
			found = true
		}
		return true
	})
	return found
}
