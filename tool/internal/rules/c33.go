package rules

import (
	"fmt"
	"sort"
	"go/ast"
	"go/token"
	"go/types"
	"strings"

	"ledgerlint/internal/astx"
	"ledgerlint/internal/core"
)

func init() {
	register("C33", checkC33)
	addBreakers("C33",
		Breaker{Name: "accept-keeps-only-the-last-wait-outcome", File: "internal/replication/drivers/batcher.go",
			Old: "\tfor ind, operation := range operations {", New: "\tvar lastErr error\n\tfor _, operation := range operations {",
			Old2: "\t\tif _, err := operation.Wait(ctx); err != nil {\n\t\t\titemsErrors[ind] = fmt.Errorf(\"failure while waiting for operation completion: %w\", err)\n\t\t\tcontinue\n\t\t}\n\t}\n", New2: "\t\t_, lastErr = operation.Wait(ctx)\n\t}\n\tif lastErr == nil {\n\t\treturn itemsErrors, nil\n\t}\n", Expect: "ERRP/loop-carried-error"},
		Breaker{Name: "update-pipeline-skips-nil-values", File: "internal/storage/system/store.go",
			Old: "\tfor k, v := range o {\n\t\tupdateQuery = updateQuery.Set(k+\" = ?\", v)", New: "\tfor k, v := range o {\n\t\tif v == nil {\n\t\t\tcontinue\n\t\t}\n\t\tupdateQuery = updateQuery.Set(k+\" = ?\", v)", Expect: "SQLS/pipeline-update"},
		Breaker{Name: "advance-on-exporter-error", File: "internal/replication/pipeline.go",
			Old: "\t\t\t\t\t\tcase <-time.After(p.pipelineConfig.PushRetryPeriod + time.Duration(rand.Int63n(int64(p.pipelineConfig.PushRetryPeriod/2)))):\n\t\t\t\t\t\t\tcontinue\n", New: "\t\t\t\t\t\tcase <-time.After(p.pipelineConfig.PushRetryPeriod + time.Duration(rand.Int63n(int64(p.pipelineConfig.PushRetryPeriod/2)))):\n", Expect: "DOM/ack-before-advance"},
		Breaker{Name: "advance-without-waiting-for-exporter", File: "internal/replication/pipeline.go",
			Old: "\t\t\t\tcase ch := <-p.stopChannel:\n\t\t\t\t\tcancel()\n\t\t\t\t\tstop(ch)\n\t\t\t\t\treturn\n\t\t\t\t}\n", New: "\t\t\t\tcase ch := <-p.stopChannel:\n\t\t\t\t\tcancel()\n\t\t\t\t\tstop(ch)\n\t\t\t\t\treturn\n\t\t\t\tdefault:\n\t\t\t\t}\n", Expect: "DOM/ack-before-advance"},
		Breaker{Name: "exporter-error-dropped", File: "internal/replication/pipeline.go",
			Old: "\t\t\t\t\terrChan <- err\n", New: "\t\t\t\t\t_ = err\n\t\t\t\t\terrChan <- nil\n", Expect: "DOM/ack-before-advance"},
		Breaker{Name: "last-id-from-first-log", File: "internal/replication/pipeline.go",
			Old: "lastLogID := logs.Data[len(logs.Data)-1].ID", New: "lastLogID := logs.Data[0].ID", Expect: "SHAPE/pipeline-batch"},
		Breaker{Name: "fetch-not-after-last-id", File: "internal/replication/pipeline.go",
			Old: "builder = query.Gt(\"id\", *p.pipeline.LastLogID)", New: "builder = query.Gte(\"id\", *p.pipeline.LastLogID+1+1)", Expect: "SHAPE/pipeline-batch"},
		Breaker{Name: "fetch-descending", File: "internal/replication/pipeline.go",
			Old: "Order: pointer.For(paginate.Order(paginate.OrderAsc)),", New: "Order: pointer.For(paginate.Order(paginate.OrderDesc)),", Expect: "SHAPE/pipeline-batch"},
		Breaker{Name: "export-partial-batch", File: "internal/replication/pipeline.go",
			Old: "collections.Map(logs.Data, func(log ledger.Log) drivers.LogWithLedger {", New: "collections.Map(logs.Data[1:], func(log ledger.Log) drivers.LogWithLedger {", Expect: "SHAPE/pipeline-batch"},
		Breaker{Name: "state-persisted-before-export", File: "internal/replication/manager.go",
			Old: "\tm.pipelines[pipeline.ID] = pipelineHandler\n", New: "\tm.pipelines[pipeline.ID] = pipelineHandler\n\tif pipeline.LastLogID != nil {\n\t\t_ = m.storage.StorePipelineState(ctx, pipeline.ID, *pipeline.LastLogID+100)\n\t}\n", Expect: "WMC/pipeline-state"},
		Breaker{Name: "reset-keeps-last-id", File: "internal/replication/manager.go",
			Old: "\t\t\"enabled\":     true,\n\t\t\"last_log_id\": nil,\n", New: "\t\t\"enabled\":     true,\n", Expect: "DOM/reset"},
		Breaker{Name: "reset-restarts-stale-pipeline", File: "internal/replication/manager.go",
			Old: "\t\tif _, err := m.startPipeline(ctx, *pipeline); err != nil {\n\t\t\tlogging.FromContext(ctx).Error(\"starting pipeline %s: %s\", pipeline.ID, err)\n\t\t}\n\t}\n\treturn nil\n}\n\nfunc NewManager(", New: "\t\told, _ := m.storage.GetPipeline(ctx, id)\n\t\t_ = pipeline\n\t\told.LastLogID = pointerTo(uint64(1))\n\t\tif _, err := m.startPipeline(ctx, *old); err != nil {\n\t\t\tlogging.FromContext(ctx).Error(\"starting pipeline %s: %s\", id, err)\n\t\t}\n\t}\n\treturn nil\n}\n\nfunc pointerTo[T any](v T) *T { return &v }\n\nfunc NewManager(", Expect: "DOM/reset"},
		Breaker{Name: "reset-without-stopping", File: "internal/replication/manager.go",
			Old: "\tif started {\n\t\tif err := m.stopPipeline(ctx, id); err != nil {\n\t\t\treturn fmt.Errorf(\"stopping pipeline: %w\", err)\n\t\t}\n\t}\n\n\tpipeline, err := m.storage.UpdatePipeline(", New: "\tpipeline, err := m.storage.UpdatePipeline(", Expect: "DOM/reset"},
		Breaker{Name: "state-update-on-wrong-row", File: "internal/storage/system/store.go",
			Old: "\t\tModel(&ledger.Pipeline{}).\n\t\tWhere(\"id = ?\", id).\n\t\tSet(\"last_log_id = ?\", lastLogID).", New: "\t\tModel(&ledger.Pipeline{}).\n\t\tWhere(\"id <> ?\", id).\n\t\tSet(\"last_log_id = ?\", lastLogID).", Expect: "SQLS/pipeline-state"},
	)
}

func checkC33(c *core.Ctx) {
	c.Decide("PipelineHandler.Run: every path to the advance of LastLogID and to the notification on the ingested channel passes the receive of the exporter's answer, whose non-nil arm never falls through (retry or stop) and whose sibling select arms all leave; the answer is exactly the error returned by exporter.Accept on the whole fetched batch; the batch is fetched with id > LastLogID in ascending id order and the new LastLogID is the id of its last element, which is also the value notified; manager: the persisted last_log_id is written only by the subscription goroutine of startPipeline with values received from the channel handed to Run, by the single UPDATE of StorePipelineState on that pipeline's row, and by ResetPipeline which sets it to nil; ResetPipeline holds the manager lock, stops a running pipeline first (failure ends the reset), and restarts with the row returned by the update; pipelines are (re)started from the stored row")
	c.NotDecided("eventual delivery and the stop/persist race (schedules and liveness); what the exporter does with a batch; restarts across processes")
	ruleAckBeforeAdvance(c)
	rulePipelineBatchShapeTolerant(c)
	rulePipelineStateWriters(c)
	ruleResetPipeline(c)
	ruleBatcherItemErrors(c)
	ruleStopDriverUnregisters(c)
	ruleContextPerAttempt(c)
	ruleReplicationSeesLogsInIDOrder(c)
	rulePartiallyFilledSlots(c)
	ruleLoopCarriedError(c)
}

func ruleAckBeforeAdvance(c *core.Ctx) {
	d := fn(c, pkgReplic, "PipelineHandler", "Run")
	if d == nil {
		return
	}
	info := d.Pkg.TypesInfo
	key := declKey(d)
	// the answer channel: receives `x := <-ch` in a select clause where ch is a local chan error fed by a goroutine
	var recvClause *ast.CommClause
	var sel *ast.SelectStmt
	var chObj types.Object
	ast.Inspect(d.Decl.Body, func(n ast.Node) bool {
		s, ok := n.(*ast.SelectStmt)
		if !ok {
			return true
		}
		for _, cl := range s.Body.List {
			cc := cl.(*ast.CommClause)
			as, ok := cc.Comm.(*ast.AssignStmt)
			if !ok || len(as.Rhs) != 1 {
				continue
			}
			u, ok := as.Rhs[0].(*ast.UnaryExpr)
			if !ok || u.Op != token.ARROW {
				continue
			}
			id, ok := u.X.(*ast.Ident)
			if !ok {
				continue
			}
			if ch, ok := info.TypeOf(id).Underlying().(*types.Chan); ok && types.Identical(ch.Elem(), types.Universe.Lookup("error").Type()) {
				if _, isVar := info.ObjectOf(id).(*types.Var); isVar && info.ObjectOf(id).Parent() != d.Pkg.Types.Scope() {
					// chan error and not the stop channel's element (chan chan error)
					recvClause, sel, chObj = cc, s, info.ObjectOf(id)
				}
			}
		}
		return true
	})
	if recvClause == nil {
		c.Fail("DOM/ack-before-advance", key+":answer-receive", pos(c, d.Decl), "Run no longer receives the exporter's answer from an error channel in a select")
		return
	}
	// (a) the non-nil arm never falls through
	okNonNil := false
	var errName string
	if as, ok := recvClause.Comm.(*ast.AssignStmt); ok && len(as.Lhs) == 1 {
		errName = types.ExprString(as.Lhs[0])
	}
	for _, st := range recvClause.Body {
		if is, ok := st.(*ast.IfStmt); ok && types.ExprString(is.Cond) == errName+" != nil" && is.Else == nil && astx.Terminates(info, is.Body.List) {
			okNonNil = true
		}
	}
	// nothing in the clause leaves the inner loop before that test
	c.Check(okNonNil, "DOM/ack-before-advance", key+":error-arm-never-advances", pos(c, recvClause), "`if err != nil` arm retries or stops", "after the exporter answered with an error the pipeline can fall through to advancing LastLogID: the failed batch is skipped")
	// (b) sibling arms leave, no default
	okSiblings := true
	for _, cl := range sel.Body.List {
		cc := cl.(*ast.CommClause)
		if cc == recvClause {
			continue
		}
		if cc.Comm == nil || !astx.Terminates(info, cc.Body) {
			okSiblings = false
		}
		if len(cc.Body) > 0 {
			if b, ok := cc.Body[len(cc.Body)-1].(*ast.BranchStmt); ok && b.Tok == token.BREAK && b.Label == nil {
				okSiblings = false
			}
		}
	}
	c.Check(okSiblings, "DOM/ack-before-advance", key+":only-the-answer-continues", pos(c, sel), "other select arms return; no default", "the select waiting for the exporter has an arm (default or stop) that continues to the advance without the exporter's answer")
	// (c) dominance on the CFG
	flow := astx.NewFlow(info, d.Decl.Body)
	var advance, notify ast.Node
	ast.Inspect(d.Decl.Body, func(n ast.Node) bool {
		switch x := n.(type) {
		case *ast.AssignStmt:
			for _, l := range x.Lhs {
				if strings.HasSuffix(types.ExprString(l), ".pipeline.LastLogID") {
					advance = x
				}
			}
		case *ast.SendStmt:
			if id, ok := x.Chan.(*ast.Ident); ok {
				if v, ok := info.ObjectOf(id).(*types.Var); ok && v.Parent() != nil {
					// the parameter channel
					for _, p := range d.Decl.Type.Params.List {
						for _, nm := range p.Names {
							if info.ObjectOf(nm) == v {
								notify = x
							}
						}
					}
				}
			}
		}
		return true
	})
	if advance == nil || notify == nil {
		c.Fail("DOM/ack-before-advance", key+":advance-and-notify", pos(c, d.Decl), "Run no longer advances p.pipeline.LastLogID and notifies the ingested channel")
		return
	}
	c.Check(flow.Dominates(recvClause.Comm, advance), "DOM/ack-before-advance", key+":advance", pos(c, advance), "answer receive dominates LastLogID advance", "LastLogID can be advanced on a path that never received the exporter's answer")
	c.Check(flow.Dominates(recvClause.Comm, notify) && flow.Dominates(advance, notify), "DOM/ack-before-advance", key+":notify", pos(c, notify), "answer receive and advance dominate the notification", "the ingested-logs notification (persisted as last_log_id) can be sent without the exporter's acknowledgement")
	// exactly one advance, one notification
	n := 0
	ast.Inspect(d.Decl.Body, func(x ast.Node) bool {
		if as, ok := x.(*ast.AssignStmt); ok {
			for _, l := range as.Lhs {
				if strings.HasSuffix(types.ExprString(l), ".pipeline.LastLogID") {
					n++
				}
			}
		}
		return true
	})
	c.Check(n == 1, "DOM/ack-before-advance", key+":single-advance", pos(c, advance), "one assignment of LastLogID", "LastLogID is assigned at more than one place in Run")
	// (d) the channel is fed only with Accept's error
	sends, okSends := 0, true
	ast.Inspect(d.Decl.Body, func(x ast.Node) bool {
		s, ok := x.(*ast.SendStmt)
		if !ok {
			return true
		}
		id, ok := s.Chan.(*ast.Ident)
		if !ok || info.ObjectOf(id) != chObj {
			return true
		}
		sends++
		// value is an identifier assigned from exporter.Accept in the same function literal
		vid, ok := s.Value.(*ast.Ident)
		if !ok {
			okSends = false
			return true
		}
		fromAccept := false
		ast.Inspect(d.Decl.Body, func(y ast.Node) bool {
			as, ok := y.(*ast.AssignStmt)
			if !ok || len(as.Rhs) != 1 {
				return true
			}
			call, ok := as.Rhs[0].(*ast.CallExpr)
			if !ok {
				return true
			}
			if f := astx.Callee(info, call); f != nil && f.Name() == "Accept" {
				for _, l := range as.Lhs {
					if lid, ok := l.(*ast.Ident); ok && info.ObjectOf(lid) == info.ObjectOf(vid) {
						fromAccept = true
					}
				}
			}
			return true
		})
		if !fromAccept {
			okSends = false
		}
		return true
	})
	c.Check(sends == 1 && okSends, "DOM/ack-before-advance", key+":answer-is-accept-error", pos(c, d.Decl), "errChan <- error of exporter.Accept", "the answer channel is not fed exactly with the error exporter.Accept returned: a failed export can look acknowledged")
}

func rulePipelineBatchShape(c *core.Ctx) {
	d := fn(c, pkgReplic, "PipelineHandler", "Run")
	if d == nil {
		return
	}
	info := d.Pkg.TypesInfo
	key := declKey(d)
	// fetch: ListLogs with Column id, ascending, builder = Gt("id", *LastLogID) under LastLogID != nil
	list := callsTo(info, d.Decl.Body, named("ListLogs"))
	okFetch := false
	var logsVar string
	if len(list) == 1 && len(list[0].Args) == 2 {
		if cl, ok := list[0].Args[1].(*ast.CompositeLit); ok {
			col := fieldOfCompositeLit(cl, "Column")
			ord := fieldOfCompositeLit(cl, "Order")
			colS, _ := astx.ConstString(info, col)
			okFetch = colS == "id" && ord != nil && strings.Contains(types.ExprString(ord), "OrderAsc")
		}
		ast.Inspect(d.Decl.Body, func(n ast.Node) bool {
			if as, ok := n.(*ast.AssignStmt); ok && len(as.Rhs) == 1 && ast.Unparen(as.Rhs[0]) == ast.Expr(list[0]) && len(as.Lhs) == 2 {
				logsVar = types.ExprString(as.Lhs[0])
			}
			return true
		})
	}
	c.Check(okFetch, "SHAPE/pipeline-batch", key+":fetch-order", pos(c, d.Decl), "ListLogs by id ascending", "the pipeline does not fetch logs ordered by ascending id")
	okGt := false
	for _, call := range callsTo(info, d.Decl.Body, named("Gt")) {
		if len(call.Args) == 2 {
			k, _ := astx.ConstString(info, call.Args[0])
			if k == "id" && types.ExprString(call.Args[1]) == "*p.pipeline.LastLogID" {
				fs := factStrings(info, d.Decl.Body, call.Pos())
				okGt = hasFact(fs, "p.pipeline.LastLogID != nil", true)
			}
		}
	}
	nb := 0
	ast.Inspect(d.Decl.Body, func(n ast.Node) bool {
		if as, ok := n.(*ast.AssignStmt); ok && len(as.Lhs) == 1 && types.ExprString(as.Lhs[0]) == "builder" {
			nb++
		}
		return true
	})
	c.Check(okGt && nb == 1, "SHAPE/pipeline-batch", key+":fetch-after-last", pos(c, d.Decl), "filter id > LastLogID", "the pipeline's fetch filter is not exactly `id > LastLogID` (from the beginning when LastLogID is nil): logs are skipped or re-sent out of order")
	// Accept gets the whole batch
	okAll := false
	for _, call := range callsTo(info, d.Decl.Body, named("Accept")) {
		for _, a := range call.Args {
			if m, ok := ast.Unparen(a).(*ast.CallExpr); ok && len(m.Args) >= 1 && types.ExprString(m.Args[0]) == logsVar+".Data" {
				okAll = true
			}
		}
	}
	c.Check(okAll && logsVar != "", "SHAPE/pipeline-batch", key+":whole-batch", pos(c, d.Decl), "Accept(all of logs.Data)", "the exporter is not handed the whole fetched batch")
	// new LastLogID = id of the last element of that batch, and that is what is notified
	okLast := false
	var lastVar string
	ast.Inspect(d.Decl.Body, func(n ast.Node) bool {
		as, ok := n.(*ast.AssignStmt)
		if !ok || len(as.Lhs) != 1 || len(as.Rhs) != 1 {
			return true
		}
		r := types.ExprString(as.Rhs[0])
		if strings.ReplaceAll(r, " ", "") == logsVar+".Data[len("+logsVar+".Data)-1].ID" {
			lastVar = types.ExprString(as.Lhs[0])
		}
		if strings.HasSuffix(types.ExprString(as.Lhs[0]), ".pipeline.LastLogID") {
			okLast = r == lastVar && lastVar != ""
		}
		return true
	})
	okNotify := false
	ast.Inspect(d.Decl.Body, func(n ast.Node) bool {
		if s, ok := n.(*ast.SendStmt); ok && types.ExprString(s.Value) == "*"+lastVar {
			okNotify = true
		}
		return true
	})
	c.Check(okLast && okNotify, "SHAPE/pipeline-batch", key+":last-of-batch", pos(c, d.Decl), "LastLogID = id of the batch's last log = value notified", "the new LastLogID (and the persisted value) is not the id of the last log of the acknowledged batch")
}

func rulePipelineStateWriters(c *core.Ctx) {
	// call sites of StorePipelineState in the replication package
	var sites []*astx.Site
	ix := index(c)
	for _, s := range ix.Sites {
		if s.Callee == nil || s.Callee.Name() != "StorePipelineState" {
			continue
		}
		if relPkg(s.Pkg.PkgPath) == pkgReplic && !strings.HasSuffix(c.Prog().Rel(s.Call.Pos()), "_test.go") && !strings.Contains(c.Prog().Rel(s.Call.Pos()), "_generated") {
			sites = append(sites, s)
		}
	}
	// accepted sites: in a function that hands a channel to PipelineHandler.Run (or in a helper it
	// calls, the channel and the pipeline id being the caller's), the call sits in
	// `for v := range <that channel>` and stores v for <the handler's pipeline>.ID
	accepted := map[*ast.CallExpr]bool{}
	isStore := func(f *types.Func) bool { return f.Name() == "StorePipelineState" }
	for _, d := range ix.Decls {
		if d.Decl.Body == nil || relPkg(d.Pkg.PkgPath) != pkgReplic || strings.HasSuffix(c.Prog().Rel(d.Decl.Pos()), "_test.go") {
			continue
		}
		runs := callsTo(d.Pkg.TypesInfo, d.Decl.Body, methodOn("PipelineHandler", "Run"))
		if len(runs) == 0 {
			continue
		}
		envs := scopeEnvsDepth(c, d, 3)
		root := envs[0]
		wantID := ""
		for _, nh := range callsTo(d.Pkg.TypesInfo, d.Decl.Body, func(f *types.Func) bool { return f.Name() == "NewPipelineHandler" }) {
			if len(nh.Args) > 0 {
				wantID = root.origin(nh.Args[0]) + ".ID"
			}
		}
		for _, run := range runs {
			if len(run.Args) != 2 {
				continue
			}
			ch := root.rootObj(run.Args[1])
			if ch == nil {
				continue
			}
			for _, e := range envs {
				for _, st := range callsTo(e.info, e.d.Decl.Body, isStore) {
					if len(st.Args) != 3 {
						continue
					}
					ast.Inspect(e.d.Decl.Body, func(x ast.Node) bool {
						r, isR := x.(*ast.RangeStmt)
						if !isR || !(r.Body.Pos() <= st.Pos() && st.End() <= r.Body.End()) || r.Key == nil {
							return true
						}
						keyID, isID := r.Key.(*ast.Ident)
						if !isID || e.rootObj(r.X) != ch || e.rootObj(st.Args[2]) != e.info.ObjectOf(keyID) {
							return true
						}
						id := e.origin(st.Args[1])
						if (wantID != "" && id == wantID) || (wantID == "" && strings.HasSuffix(id, ".ID")) {
							accepted[st] = true
						}
						return true
					})
				}
			}
		}
	}
	n := 0
	for _, s := range sites {
		if s.Encl == nil {
			continue
		}
		// the adapter forwarding its own arguments is not a writer
		if s.Encl.Name.Name == "StorePipelineState" {
			continue
		}
		n++
		key := enclKey(pkgReplic, s.Encl)
		c.Check(accepted[s.Call], "WMC/pipeline-state", key+":StorePipelineState", pos(c, s.Call), "only the subscription loop, with values notified by Run", "last_log_id is persisted from "+s.Encl.Name.Name+" with a value that was not notified by the pipeline after an acknowledged export: the persisted id can exceed what the exporter acknowledged")
	}
	c.Floor("WMC/pipeline-state", "StorePipelineState call sites", n, 1)
	// SQL: one UPDATE setting last_log_id to the argument on the row id = ?
	if d := fn(c, pkgSysStore, "DefaultStore", "StorePipelineState"); d != nil {
		m := bunModel(c, pkgSysStore)
		ok := false
		for _, st := range stmtsIn(m, d) {
			set, where := false, false
			for _, cl := range st.Clauses {
				for _, alt := range cl.SQL {
					norm := normSimplePredicate(alt)
					if cl.Method == "Set" && norm == "last_log_id=?" && len(cl.Args) == 1 && argIsParam(c, d, cl.Args[0], 2) {
						set = true
					}
					if cl.Method == "Where" && norm == "id=?" && len(cl.Args) == 1 && argIsParam(c, d, cl.Args[0], 1) {
						where = true
					}
				}
			}
			nWhere := 0
			for _, cl := range st.Clauses {
				if strings.HasPrefix(cl.Method, "Where") {
					nWhere++
				}
			}
			if set && where && nWhere == 1 {
				ok = true
			}
		}
		c.Check(ok, "SQLS/pipeline-state", declKey(d), pos(c, d.Decl), "update pipelines set last_log_id = <arg> where id = <arg>", "StorePipelineState does not update last_log_id of exactly the given pipeline with the given value")
	}
	// UpdatePipeline writes every entry of the map it is given, nil values included: the reset
	// clears the position by sending {last_log_id: nil}
	if d := fn(c, pkgSysStore, "DefaultStore", "UpdatePipeline"); d != nil {
		info := d.Pkg.TypesInfo
		var loop *ast.RangeStmt
		ast.Inspect(d.Decl.Body, func(x ast.Node) bool {
			if r, ok := x.(*ast.RangeStmt); ok && loop == nil && argIsParam(c, d, r.X, 2) {
				loop = r
			}
			return true
		})
		if loop == nil {
			c.Unrecognised("SQLS/pipeline-update", declKey(d)+":every-entry", pos(c, d.Decl), "UpdatePipeline does not range over its map parameter")
		} else {
			sets := callsTo(info, loop.Body, named("Set"))
			conditional := len(sets) == 0
			for _, st := range sets {
				if len(astx.FactsAt(info, loop.Body, st.Pos())) > 0 {
					conditional = true
				}
			}
			ast.Inspect(loop.Body, func(x ast.Node) bool {
				if b, ok := x.(*ast.BranchStmt); ok && (b.Tok == token.CONTINUE || b.Tok == token.BREAK) {
					conditional = true
				}
				return true
			})
			c.Check(!conditional, "SQLS/pipeline-update", declKey(d)+":every-entry", pos(c, loop), "every map entry becomes a SET, whatever its value", "UpdatePipeline skips some entries of the map it is given: ResetPipeline's {last_log_id: nil} no longer clears the position, the restarted pipeline resumes from the old one and nothing is exported again")
		}
	}
	// UpdatePipeline callers: last_log_id only ever set to nil
	for _, s := range ix.Sites {
		if s.Callee == nil || s.Callee.Name() != "UpdatePipeline" {
			continue
		}
		if s.Encl == nil || strings.HasSuffix(c.Prog().Rel(s.Call.Pos()), "_test.go") || len(s.Call.Args) != 3 {
			continue
		}
		cl, ok := s.Call.Args[2].(*ast.CompositeLit)
		if !ok {
			continue // forwarding adapters
		}
		for _, el := range cl.Elts {
			kv, ok := el.(*ast.KeyValueExpr)
			if !ok {
				continue
			}
			k, _ := astx.ConstString(s.Pkg.TypesInfo, kv.Key)
			if k == "last_log_id" {
				c.Check(astx.IsNilExpr(s.Pkg.TypesInfo, kv.Value), "WMC/pipeline-state", enclKey(relPkg(s.Pkg.PkgPath), s.Encl)+":UpdatePipeline:last_log_id", pos(c, s.Call), "only reset to nil", "last_log_id is set to a value outside the acknowledged-export path")
			}
		}
	}
}

func ruleResetPipeline(c *core.Ctx) {
	d := fn(c, pkgReplic, "Manager", "ResetPipeline")
	if d == nil {
		return
	}
	info := d.Pkg.TypesInfo
	key := declKey(d)
	// lock held
	okLock := false
	if len(d.Decl.Body.List) >= 2 {
		if lc, ok := exprOfStmt(d.Decl.Body.List[0]).(*ast.CallExpr); ok && len(lc.Args) == 0 {
			if se, ok := lc.Fun.(*ast.SelectorExpr); ok && se.Sel.Name == "Lock" && canonPath(d, se.X) == "recv.mu" {
				okLock = true
			}
		}
		okUnlock := false
		if ds, ok := d.Decl.Body.List[1].(*ast.DeferStmt); ok && len(ds.Call.Args) == 0 {
			if se, ok := ds.Call.Fun.(*ast.SelectorExpr); ok && se.Sel.Name == "Unlock" && canonPath(d, se.X) == "recv.mu" {
				okUnlock = true
			}
		}
		okLock = okLock && okUnlock
	}
	c.Check(okLock, "DOM/reset", key+":lock", pos(c, d.Decl), "m.mu held for the whole reset", "ResetPipeline does not hold the manager lock: a concurrent synchronisation can restart the pipeline between stop and reset")
	stop := callsTo(info, d.Decl.Body, named("stopPipeline"))
	upd := callsTo(info, d.Decl.Body, named("UpdatePipeline"))
	start := callsTo(info, d.Decl.Body, named("startPipeline"))
	if !onceEach(c, d, "DOM/reset", key+":shape", "ResetPipeline no longer stops, updates and restarts the pipeline once each", "stopPipeline", "UpdatePipeline", "startPipeline") {
		return
	}
	// stop before update when started, failure leaves
	fs := factStrings(info, d.Decl.Body, stop[0].Pos())
	okStop := hasFact(fs, "started", true) && stop[0].Pos() < upd[0].Pos() && errLeaves(info, d.Decl.Body, stop[0])
	// `started` is defined from the running set
	okStarted := false
	ast.Inspect(d.Decl.Body, func(n ast.Node) bool {
		if as, ok := n.(*ast.AssignStmt); ok && len(as.Lhs) == 1 && types.ExprString(as.Lhs[0]) == "started" && len(as.Rhs) == 1 {
			r := types.ExprString(as.Rhs[0])
			okStarted = strings.Contains(r, "m.pipelines[id]")
		}
		return true
	})
	c.Check(okStop && okStarted, "DOM/reset", key+":stop-first", pos(c, stop[0]), "running pipeline stopped before last_log_id is cleared; failure ends the reset", "ResetPipeline clears last_log_id while the pipeline may still be running (or ignores a failed stop): the running handler re-persists its old position")
	// update clears last_log_id
	okNil := false
	if len(upd[0].Args) == 3 {
		if cl, ok := upd[0].Args[2].(*ast.CompositeLit); ok {
			for _, el := range cl.Elts {
				if kv, ok := el.(*ast.KeyValueExpr); ok {
					if k, _ := astx.ConstString(info, kv.Key); k == "last_log_id" && astx.IsNilExpr(info, kv.Value) {
						okNil = true
					}
				}
			}
		}
	}
	c.Check(okNil, "DOM/reset", key+":clears-last-id", pos(c, upd[0]), "last_log_id = nil", "ResetPipeline does not clear last_log_id: after a reset the logs are not exported again from the first one")
	// restart with the returned row
	okRestart := false
	var ret string
	ast.Inspect(d.Decl.Body, func(n ast.Node) bool {
		if as, ok := n.(*ast.AssignStmt); ok && len(as.Rhs) == 1 && ast.Unparen(as.Rhs[0]) == ast.Expr(upd[0]) && len(as.Lhs) == 2 {
			ret = types.ExprString(as.Lhs[0])
		}
		return true
	})
	if len(start[0].Args) == 2 && ret != "" && types.ExprString(start[0].Args[1]) == "*"+ret {
		// and ret is not reassigned in between
		re := 0
		ast.Inspect(d.Decl.Body, func(n ast.Node) bool {
			if as, ok := n.(*ast.AssignStmt); ok {
				for _, l := range as.Lhs {
					if types.ExprString(l) == ret || strings.HasPrefix(types.ExprString(l), ret+".") {
						re++
					}
				}
			}
			return true
		})
		okRestart = re == 1 && upd[0].Pos() < start[0].Pos() && hasFact(factStrings(info, d.Decl.Body, start[0].Pos()), "started", true)
	}
	c.Check(okRestart, "DOM/reset", key+":restart-from-reset-row", pos(c, start[0]), "restart with the row returned by the update", "after the reset the pipeline is restarted from a stale row (old last_log_id) instead of the row the update returned")
	// startPipeline hands its pipeline argument to the handler; synchronizePipelines starts from stored rows
	if sp := fn(c, pkgReplic, "Manager", "startPipeline"); sp != nil {
		nh := callsTo(sp.Pkg.TypesInfo, sp.Decl.Body, named("NewPipelineHandler"))
		c.Check(len(nh) == 1 && len(nh[0].Args) >= 1 && types.ExprString(nh[0].Args[0]) == "pipeline", "DOM/reset", declKey(sp)+":handler-gets-row", pos(c, sp.Decl), "NewPipelineHandler(pipeline, …)", "startPipeline does not hand the stored pipeline row (with its last_log_id) to the handler")
	}
	if sy := fn(c, pkgReplic, "Manager", "synchronizePipelines"); sy != nil {
		i2 := sy.Pkg.TypesInfo
		le := callsTo(i2, sy.Decl.Body, named("ListEnabledPipelines"))
		st := callsTo(i2, sy.Decl.Body, named("startPipeline"))
		ok := len(le) == 1 && len(st) == 1
		if ok {
			ok = false
			ast.Inspect(sy.Decl.Body, func(n ast.Node) bool {
				if r, isR := n.(*ast.RangeStmt); isR && r.Value != nil && r.Body.Pos() <= st[0].Pos() && st[0].End() <= r.Body.End() {
					if types.ExprString(st[0].Args[1]) == types.ExprString(r.Value) && types.ExprString(r.X) == "pipelines" {
						ok = true
					}
				}
				return true
			})
		}
		c.Check(ok, "DOM/reset", declKey(sy)+":restart-from-store", pos(c, sy.Decl), "pipelines restarted from ListEnabledPipelines rows", "after a manager restart pipelines are not resumed from their stored rows")
	}
}

func exprOfStmt(s ast.Stmt) ast.Expr {
	if es, ok := s.(*ast.ExprStmt); ok {
		return es.X
	}
	return &ast.Ident{Name: "_"}
}

// ruleReplicationSeesLogsInIDOrder (LOCK): the pipeline pages `id > LastLogID order by id` and
// never looks back. That is complete only if logs become visible (commit) in id order, which
// InsertLog guarantees by holding the per-ledger transaction lock from the id allocation to the
// commit — for the HASH_LOGS values it takes the lock for. For every other configured value a
// log with a lower id can commit after the pipeline passed it, and is never exported.
func ruleReplicationSeesLogsInIDOrder(c *core.Ctx) {
	locked := ruleLogInsertLock(c)
	maps := featureTableMaps(c)
	conf := maps["FeatureConfigurations"]["HASH_LOGS"]
	if len(conf) == 0 {
		c.Unrecognised("LOCK/replication-order", "HASH_LOGS:values", "", "the configurations of HASH_LOGS were not found in pkg/features")
		return
	}
	sort.Strings(conf)
	for _, v := range conf {
		c.Check(stmtMayRead(locked, v), "LOCK/replication-order", "HASH_LOGS="+v, "", "InsertLog holds the per-ledger lock until commit", fmt.Sprintf("with HASH_LOGS=%s InsertLog allocates the log id without holding the per-ledger lock until commit (it takes it only for %v): writer A draws id 10, writer B draws 11 and commits, the pipeline exports up to 11 and persists that position, A commits — log 10 is never exported", v, locked))
	}
}

// normSimplePredicate lower-cases a one-comparison SQL fragment, removes all white space and any
// redundant parentheses around the whole of it ("( id = ? )" -> "id=?").
func normSimplePredicate(sql string) string {
	n := strings.Join(strings.Fields(strings.ToLower(sql)), "")
	for len(n) >= 2 && n[0] == '(' && n[len(n)-1] == ')' {
		depth, closesAtEnd := 0, true
		for i := 0; i < len(n); i++ {
			switch n[i] {
			case '(':
				depth++
			case ')':
				depth--
				if depth == 0 && i != len(n)-1 {
					closesAtEnd = false
				}
			}
		}
		if !closesAtEnd {
			break
		}
		n = n[1 : len(n)-1]
	}
	return n
}

// argIsParam: x is (a plain use of, or a local copy of) the i-th parameter of d.
func argIsParam(c *core.Ctx, d *astx.DeclInfo, x ast.Expr, i int) bool {
	obj := newOriginEnv(c, d).rootObj(x)
	if obj == nil || d.Decl.Type.Params == nil {
		return false
	}
	k := 0
	for _, fl := range d.Decl.Type.Params.List {
		for _, nm := range fl.Names {
			if k == i && d.Pkg.TypesInfo.ObjectOf(nm) == obj {
				return true
			}
			k++
		}
	}
	return false
}
