// Package load loads /repo's current working tree as a type-checked program.
package load

import (
	"fmt"
	"go/ast"
	"go/token"
	"go/types"
	"os"
	"path/filepath"
	"sort"
	"strings"
	"sync"

	"golang.org/x/tools/go/packages"
	"golang.org/x/tools/go/ssa"
	"golang.org/x/tools/go/ssa/ssautil"
)

const Module = "github.com/formancehq/ledger"

// GoRoot of the toolchain able to load the repository (go.mod says go 1.26).
const goBin = "/opt/veriftools/go1.26.8/bin"

type Program struct {
	RepoDir string
	Fset    *token.FileSet
	Roots   []*packages.Package
	ByPath  map[string]*packages.Package
	Overlay map[string][]byte

	ssaOnce sync.Once
	SSAProg *ssa.Program
	ssaPkgs map[string]*ssa.Package
}

func env() []string {
	e := []string{}
	for _, kv := range os.Environ() {
		k := kv
		if i := strings.IndexByte(kv, '='); i >= 0 {
			k = kv[:i]
		}
		switch k {
		case "PATH", "GOFLAGS", "GOPROXY", "GOSUMDB", "GOTOOLCHAIN", "GOWORK":
			continue
		}
		e = append(e, kv)
	}
	e = append(e,
		"PATH="+goBin+":"+os.Getenv("PATH"),
		"GOFLAGS=-mod=mod",
		"GOPROXY=off",
		"GOSUMDB=off",
		"GOTOOLCHAIN=local",
		"GOWORK=off",
	)
	return e
}

// DefaultPatterns are the packages the analyses look at.
var DefaultPatterns = []string{"./internal/...", "./pkg/features/...", "./pkg/accounts/...", "./pkg/assets/...", "./pkg/events/...", "./cmd/..."}

// Load type-checks the given patterns of repoDir (tests excluded). All dependencies
// are loaded with syntax so that go/ssa can be built for the repository packages.
func Load(repoDir string, patterns []string, overlay map[string][]byte, tags string) (*Program, error) {
	if len(patterns) == 0 {
		patterns = DefaultPatterns
	}
	// go/packages resolves the "go" binary through this process's PATH.
	if !strings.HasPrefix(os.Getenv("PATH"), goBin+":") {
		os.Setenv("PATH", goBin+":"+os.Getenv("PATH"))
	}
	// With an overlay the export data of every dependent package would have to be rebuilt by
	// the compiler; type-checking everything from source is much cheaper then.
	goOverlay := map[string][]byte{}
	for p, b := range overlay {
		if strings.HasSuffix(p, ".go") {
			goOverlay[p] = b
		}
	}
	mode := packages.LoadSyntax
	if len(goOverlay) > 0 {
		mode = packages.LoadAllSyntax
	}
	overlay = goOverlay
	cfg := &packages.Config{
		Mode:    mode,
		Dir:     repoDir,
		Env:     env(),
		Tests:   false,
		Overlay: overlay,
	}
	if tags != "" {
		cfg.BuildFlags = []string{"-tags=" + tags}
	}
	pkgs, err := packages.Load(cfg, patterns...)
	if err != nil {
		return nil, fmt.Errorf("packages.Load: %w", err)
	}
	if len(pkgs) == 0 {
		return nil, fmt.Errorf("no packages loaded from %s", repoDir)
	}
	p := &Program{RepoDir: repoDir, Fset: pkgs[0].Fset, Roots: pkgs, ByPath: map[string]*packages.Package{}, Overlay: overlay}
	var errs []string
	packages.Visit(pkgs, nil, func(pk *packages.Package) {
		if strings.HasPrefix(pk.PkgPath, Module) {
			p.ByPath[pk.PkgPath] = pk
			for _, e := range pk.Errors {
				errs = append(errs, e.Error())
			}
		}
	})
	if len(errs) > 0 {
		sort.Strings(errs)
		if len(errs) > 10 {
			errs = errs[:10]
		}
		return nil, fmt.Errorf("type-check errors in repository packages: %s", strings.Join(errs, "; "))
	}
	return p, nil
}

// Pkg returns the repository package with the given path relative to the module
// ("internal/storage/ledger"); "" is the module root... which is not loaded: use "internal" for the core package.
func (p *Program) Pkg(rel string) *packages.Package {
	return p.ByPath[Module+"/"+rel]
}

func (p *Program) RepoPackages() []*packages.Package {
	var out []*packages.Package
	for _, pk := range p.ByPath {
		out = append(out, pk)
	}
	sort.Slice(out, func(i, j int) bool { return out[i].PkgPath < out[j].PkgPath })
	return out
}

// Rel returns a position as repo-relative file:line.
func (p *Program) Rel(pos token.Pos) string {
	if !pos.IsValid() {
		return "?"
	}
	ps := p.Fset.Position(pos)
	f := ps.Filename
	if r, err := filepath.Rel(p.RepoDir, f); err == nil && !strings.HasPrefix(r, "..") {
		f = r
	}
	return fmt.Sprintf("%s:%d", f, ps.Line)
}

// BuildSSA builds SSA bodies for repository packages only.
func (p *Program) BuildSSA() *ssa.Program {
	p.ssaOnce.Do(func() {
		prog, _ := ssautil.Packages(p.Roots, ssa.InstantiateGenerics)
		p.SSAProg = prog
		p.ssaPkgs = map[string]*ssa.Package{}
		var wg sync.WaitGroup
		for _, sp := range prog.AllPackages() {
			if sp.Pkg != nil && strings.HasPrefix(sp.Pkg.Path(), Module) {
				p.ssaPkgs[sp.Pkg.Path()] = sp
				wg.Add(1)
				go func(sp *ssa.Package) { defer wg.Done(); sp.Build() }(sp)
			}
		}
		wg.Wait()
	})
	return p.SSAProg
}

func (p *Program) SSAPkg(rel string) *ssa.Package {
	p.BuildSSA()
	return p.ssaPkgs[Module+"/"+rel]
}

// FuncDecl finds a function or method declaration. recv is "" for functions, or the
// receiver's named type ("Store", pointer-ness ignored).
func (p *Program) FuncDecl(rel, recv, name string) (*packages.Package, *ast.FuncDecl) {
	pk := p.Pkg(rel)
	if pk == nil {
		return nil, nil
	}
	for _, f := range pk.Syntax {
		for _, d := range f.Decls {
			fd, ok := d.(*ast.FuncDecl)
			if !ok || fd.Name.Name != name {
				continue
			}
			if RecvName(fd) == recv {
				return pk, fd
			}
		}
	}
	return pk, nil
}

// RecvName returns the receiver's base type name of a method declaration ("" for functions).
func RecvName(fd *ast.FuncDecl) string {
	if fd.Recv == nil || len(fd.Recv.List) == 0 {
		return ""
	}
	t := fd.Recv.List[0].Type
	for {
		switch x := t.(type) {
		case *ast.StarExpr:
			t = x.X
		case *ast.IndexExpr:
			t = x.X
		case *ast.IndexListExpr:
			t = x.X
		case *ast.ParenExpr:
			t = x.X
		case *ast.Ident:
			return x.Name
		default:
			return ""
		}
	}
}

// FuncObj returns the types.Func of a declaration.
func FuncObj(pk *packages.Package, fd *ast.FuncDecl) *types.Func {
	if o, ok := pk.TypesInfo.Defs[fd.Name].(*types.Func); ok {
		return o
	}
	return nil
}

// IsGenerated reports whether the file carries the standard generated-code marker.
func IsGenerated(f *ast.File) bool {
	for _, cg := range f.Comments {
		if cg.Pos() > f.Package {
			break
		}
		for _, c := range cg.List {
			if strings.Contains(c.Text, "Code generated") && strings.Contains(c.Text, "DO NOT EDIT") {
				return true
			}
		}
	}
	return false
}
