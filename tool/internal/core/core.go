// Package core holds the obligation ledger, the evidence writer and the known-findings
// matcher shared by every rule.
package core

import (
	"encoding/json"
	"fmt"
	"os"
	"path/filepath"
	"sort"
	"strings"
	"sync"
	"time"

	"ledgerlint/internal/load"
	"ledgerlint/internal/sqlfe"
)

const (
	OK        = "ok"
	Violation = "violation"
	Undecided = "undecided"
	// Unrecognised: the code no longer has the shape a shape rule knows how to read (the logic was
	// moved, renamed or restructured). Nothing wrong was *seen*, so this is not an alarm: the
	// obligation is reported as not evaluated (stdout note + evidence counter) and the check passes.
	Unrecognised = "unrecognised"
)

// Obligation is one rule instance evaluated on one construct.
type Obligation struct {
	Rule   string `json:"rule"`
	Key    string `json:"key"` // stable construct key (never a line number)
	Pos    string `json:"pos,omitempty"`
	Status string `json:"status"`
	Detail string `json:"detail,omitempty"`
	// Trivial marks obligations that exist only for bookkeeping (e.g. anchor resolution);
	// they are not counted in distinct_nontrivial.
	Trivial bool `json:"-"`
	Known   bool `json:"known_finding,omitempty"`
}

type Finding struct {
	Status   string `json:"status"` // known | fixed
	Property string `json:"property"`
	Rule     string `json:"rule"`
	Key      string `json:"key"`
	What     string `json:"what"`
	Witness  string `json:"witness,omitempty"`
	Commit   string `json:"commit,omitempty"`
	Ref      string `json:"ref,omitempty"`
}

type Ctx struct {
	Property string
	Tier     string
	RepoDir  string
	VerifDir string
	Seed     int64
	Overlay  map[string][]byte

	progOnce sync.Once
	prog     *load.Program
	progErr  error

	sqlOnce sync.Once
	cat     *sqlfe.Catalog
	catErr  error

	Obs      []Obligation
	Stats    map[string]int
	Notes    []string
	Decides  []string
	NotDecid []string
	Trusted  []string
	// Extra is merged into the evidence coverage object.
	Extra map[string]any

	cache map[string]any
}

func NewCtx(property, tier, repo, verif string) *Ctx {
	return &Ctx{Property: property, Tier: tier, RepoDir: repo, VerifDir: verif, Stats: map[string]int{}, cache: map[string]any{}}
}

// ShareFrom makes c reuse the program, catalog and derived structures already built by o (same
// repository, same overlay); used by the multi-property development mode only.
func (c *Ctx) ShareFrom(o *Ctx) {
	o.Prog()
	c.progOnce.Do(func() { c.prog, c.progErr = o.prog, o.progErr })
	o.Catalog()
	c.sqlOnce.Do(func() { c.cat, c.catErr = o.cat, o.catErr })
	c.cache = o.cache
}

// ReloadWithOverlay discards the loaded program and every derived structure and adds the given
// files to the overlay: the next Prog() call loads the tree again. Used once, before the rules
// run, when renamed functions are analysed under their baseline names.
func (c *Ctx) ReloadWithOverlay(files map[string][]byte) {
	if c.Overlay == nil {
		c.Overlay = map[string][]byte{}
	}
	for p, b := range files {
		c.Overlay[p] = b
	}
	c.progOnce = sync.Once{}
	c.prog, c.progErr = nil, nil
	c.cache = map[string]any{}
}

// Cache memoises expensive derived structures per context.
func (c *Ctx) Cache(key string, build func() any) any {
	if v, ok := c.cache[key]; ok {
		return v
	}
	v := build()
	c.cache[key] = v
	return v
}

// ReadFile reads a repository file honouring the overlay.
func (c *Ctx) ReadFile(path string) ([]byte, error) {
	if !filepath.IsAbs(path) {
		path = filepath.Join(c.RepoDir, path)
	}
	if b, ok := c.Overlay[path]; ok {
		return b, nil
	}
	return os.ReadFile(path)
}

// Prog loads (once) the type-checked Go program.
func (c *Ctx) Prog() *load.Program {
	c.progOnce.Do(func() {
		t0 := time.Now()
		c.prog, c.progErr = load.Load(c.RepoDir, nil, c.Overlay, "")
		if c.progErr == nil {
			c.Stats["go_packages"] = len(c.prog.ByPath)
			nfiles, nfuncs := 0, 0
			for _, pk := range c.prog.ByPath {
				nfiles += len(pk.Syntax)
				for _, f := range pk.Syntax {
					nfuncs += len(f.Decls)
				}
			}
			c.Stats["go_files"] = nfiles
			c.Stats["go_decls"] = nfuncs
			c.Stats["load_ms"] = int(time.Since(t0).Milliseconds())
		}
	})
	if c.progErr != nil {
		panic(Abort{"go load failed: " + c.progErr.Error()})
	}
	return c.prog
}

// Catalog folds (once) the bucket migrations.
func (c *Ctx) Catalog() *sqlfe.Catalog {
	c.sqlOnce.Do(func() {
		cat := sqlfe.NewCatalog()
		c.catErr = cat.LoadMigrations(filepath.Join(c.RepoDir, "internal/storage/bucket/migrations"), func(p string) ([]byte, error) { return c.ReadFile(p) })
		c.cat = cat
		if c.catErr == nil {
			c.Stats["sql_migration_files"] = cat.Files
			c.Stats["sql_statements"] = cat.Statements
			c.Stats["sql_functions_final"] = len(cat.Functions)
			c.Stats["sql_triggers_final"] = len(cat.Triggers)
			c.Stats["sql_indexes_final"] = len(cat.Indexes)
			c.Stats["sql_opaque_statements"] = len(cat.Opaque)
		}
	})
	if c.catErr != nil {
		panic(Abort{"sql catalog failed: " + c.catErr.Error()})
	}
	if len(c.cat.Errors) > 0 {
		panic(Abort{"sql lex errors: " + strings.Join(c.cat.Errors, "; ")})
	}
	if c.cat.Files == 0 {
		panic(Abort{"no migration files found"})
	}
	return c.cat
}

// Abort is raised (panic) when the analysis cannot proceed; reported as undecided.
type Abort struct{ Msg string }

func (c *Ctx) add(o Obligation) {
	c.Obs = append(c.Obs, o)
}

func (c *Ctx) Pass(rule, key, pos, detail string) {
	c.add(Obligation{Rule: rule, Key: key, Pos: pos, Status: OK, Detail: detail})
}
func (c *Ctx) PassTrivial(rule, key, pos, detail string) {
	c.add(Obligation{Rule: rule, Key: key, Pos: pos, Status: OK, Detail: detail, Trivial: true})
}
func (c *Ctx) Fail(rule, key, pos, detail string) {
	c.add(Obligation{Rule: rule, Key: key, Pos: pos, Status: Violation, Detail: detail})
}

// Unrecognised records that a shape rule could not find its anchors (see the status constant).
func (c *Ctx) Unrecognised(rule, key, pos, detail string) {
	c.add(Obligation{Rule: rule, Key: key, Pos: pos, Status: Unrecognised, Detail: detail})
}

// Shape evaluates a shape obligation: when the anchors were not recognised the obligation is not
// evaluated; when they were, it passes or fails like Check.
func (c *Ctx) Shape(recognised, ok bool, rule, key, pos, okDetail, failDetail string) {
	switch {
	case !recognised:
		c.Unrecognised(rule, key, pos, "shape not recognised; would have checked: "+okDetail)
	case ok:
		c.Pass(rule, key, pos, okDetail)
	default:
		c.Fail(rule, key, pos, failDetail)
	}
}

func (c *Ctx) Unknown(rule, key, pos, detail string) {
	c.add(Obligation{Rule: rule, Key: key, Pos: pos, Status: Undecided, Detail: detail})
}

// Check records a pass or a violation.
func (c *Ctx) Check(cond bool, rule, key, pos, okDetail, failDetail string) bool {
	if cond {
		c.Pass(rule, key, pos, okDetail)
	} else {
		c.Fail(rule, key, pos, failDetail)
	}
	return cond
}

// Floor fails when fewer than min sites were found for a rule (vacuity guard).
func (c *Ctx) Floor(rule, what string, got, min int) {
	key := "instance-count:" + what
	switch {
	case got >= min:
		c.add(Obligation{Rule: rule, Key: key, Status: OK, Detail: fmt.Sprintf("%d %s (floor %d)", got, what, min), Trivial: true})
	case got == 0:
		// nothing matched at all: the rule would pass vacuously, which is never accepted
		c.add(Obligation{Rule: rule, Key: key, Status: Undecided, Detail: fmt.Sprintf("found no %s, confirmed floor is %d: the rule would pass vacuously (anchors moved?)", what, min)})
	default:
		// fewer sites than confirmed by hand, but the rule still ran on those it found: code was
		// consolidated (two call sites folded into a helper); visible in the evidence, not an alarm
		c.add(Obligation{Rule: rule, Key: key, Status: Unrecognised, Detail: fmt.Sprintf("found %d %s, confirmed floor is %d: some sites were merged or moved, the rule was evaluated on the ones found", got, what, min)})
	}
}

// FloorShape is the vacuity guard of a shape rule anchored in one or two functions: fewer sites
// than confirmed means the logic was moved or restructured, which is reported as an unrecognised
// shape (not evaluated), not as an alarm.
func (c *Ctx) FloorShape(rule, what string, got, min int) {
	key := "instance-count:" + what
	if got < min {
		c.add(Obligation{Rule: rule, Key: key, Status: Unrecognised, Detail: fmt.Sprintf("found %d %s, confirmed floor is %d: the code was restructured, the rule is not evaluated on the missing sites", got, what, min)})
	} else {
		c.add(Obligation{Rule: rule, Key: key, Status: OK, Detail: fmt.Sprintf("%d %s (floor %d)", got, what, min), Trivial: true})
	}
}

func (c *Ctx) Decide(s string)     { c.Decides = append(c.Decides, s) }
func (c *Ctx) NotDecided(s string) { c.NotDecid = append(c.NotDecid, s) }
func (c *Ctx) Trust(s string)      { c.Trusted = append(c.Trusted, s) }

// ---- known findings ----

type findingsFile struct {
	Findings []Finding `json:"findings"`
}

func LoadFindings(verifDir string) ([]Finding, error) {
	b, err := os.ReadFile(filepath.Join(verifDir, "known_findings.json"))
	if err != nil {
		if os.IsNotExist(err) {
			return nil, nil
		}
		return nil, err
	}
	var f findingsFile
	if err := json.Unmarshal(b, &f); err != nil {
		return nil, err
	}
	return f.Findings, nil
}

// ---- report ----

type Result struct {
	Violations []Obligation
	Undecided  []Obligation
	Known      []Obligation
	KnownLines []string
	// Unrecognised shape obligations: not evaluated, not an alarm.
	Unrecognised []Obligation
}

// Finish classifies obligations against the known-findings file, prints the report,
// writes the evidence file and returns the exit code.
func (c *Ctx) Finish(start time.Time, level string, findings []Finding) int {
	// de-duplicate obligations by rule+key (keep the worst status)
	rank := map[string]int{OK: 0, Unrecognised: 1, Undecided: 2, Violation: 3}
	byKey := map[string]int{}
	var obs []Obligation
	for _, o := range c.Obs {
		k := o.Rule + "\x00" + o.Key
		if i, ok := byKey[k]; ok {
			if rank[o.Status] > rank[obs[i].Status] {
				obs[i] = o
			}
			continue
		}
		byKey[k] = len(obs)
		obs = append(obs, o)
	}
	sort.SliceStable(obs, func(i, j int) bool {
		if obs[i].Rule != obs[j].Rule {
			return obs[i].Rule < obs[j].Rule
		}
		return obs[i].Key < obs[j].Key
	})
	known := map[string]Finding{}
	for _, f := range findings {
		if f.Property == c.Property && f.Status == "known" {
			known[f.Rule+"\x00"+f.Key] = f
		}
	}
	var res Result
	discharged := 0
	nontrivial := map[string]bool{}
	for i := range obs {
		o := &obs[i]
		switch o.Status {
		case OK:
			discharged++
			if !o.Trivial {
				nontrivial[o.Rule+"\x00"+o.Key] = true
			}
		case Violation:
			if f, ok := known[o.Rule+"\x00"+o.Key]; ok {
				o.Known = true
				res.Known = append(res.Known, *o)
				res.KnownLines = append(res.KnownLines, fmt.Sprintf("KNOWN-FINDING: property=%s rule=%s key=%s %s", c.Property, o.Rule, o.Key, f.What))
				nontrivial[o.Rule+"\x00"+o.Key] = true
			} else {
				res.Violations = append(res.Violations, *o)
			}
		case Undecided:
			res.Undecided = append(res.Undecided, *o)
		case Unrecognised:
			res.Unrecognised = append(res.Unrecognised, *o)
		}
	}
	for _, o := range res.Violations {
		fmt.Printf("%s: [%s] %s: %s\n", orq(o.Pos), o.Rule, o.Key, o.Detail)
	}
	for _, o := range res.Undecided {
		fmt.Printf("%s: [%s] %s: UNDECIDED %s\n", orq(o.Pos), o.Rule, o.Key, o.Detail)
	}
	for _, l := range res.KnownLines {
		fmt.Println(l)
	}
	for _, o := range res.Unrecognised {
		fmt.Printf("NOTE unrecognised-shape: [%s] %s: %s\n", o.Rule, o.Key, o.Detail)
	}
	bad := len(res.Violations) + len(res.Undecided)

	// evidence
	var samples []any
	step := 1
	if len(obs) > 12 {
		step = len(obs) / 12
	}
	off := 0
	if c.Seed > 0 && step > 1 {
		off = int(c.Seed % int64(step))
	}
	for i := off; i < len(obs) && len(samples) < 14; i += step {
		samples = append(samples, obs[i])
	}
	for _, o := range append(res.Violations, res.Undecided...) {
		if len(samples) < 40 {
			samples = append(samples, o)
		}
	}
	rules := map[string]int{}
	for _, o := range obs {
		rules[o.Rule]++
	}
	expl := "Static analysis of /repo's current source (no execution). DECIDES: " + strings.Join(c.Decides, " | ") +
		". NOT DECIDED: " + strings.Join(c.NotDecid, " | ") + ". ANALYSED: " + statsString(c.Stats)
	if len(c.Notes) > 0 {
		expl += ". NOTES: " + strings.Join(c.Notes, " | ")
	}
	ev := map[string]any{
		"property_id": c.Property,
		"tier":        c.Tier,
		"seed":        c.Seed,
		"level":       level,
		"wall_s":      time.Since(start).Seconds(),
		"violations":  len(res.Violations) + len(res.Undecided),
		"assumptions": append([]string{"go/types, go/cfg and the repository's own SQL front-end model the constructs they parse; anything they cannot classify is reported as undecided"}, c.Trusted...),
		"coverage": map[string]any{
			"obligations":         len(obs),
			"discharged":          discharged,
			"evaluations":         len(obs),
			"distinct_nontrivial": len(nontrivial),
			"rule":                "one obligation = one rule instance evaluated on one construct of the current tree (keyed rule+construct); non-trivial = the rule matched a real site and its predicate was evaluated (instance-count floors and anchor lookups are not counted)",
			"samples":             samples,
			"explanation":         expl,
			"checker_cmd":         fmt.Sprintf("/verif/bin/ledgerlint check --property %s --tier %s", c.Property, c.Tier),
			"trusted_base":        append([]string{"go/packages + go/types + go/cfg (x/tools v0.50.0)", "ledgerlint's SQL lexer/parser/catalog fold"}, c.Trusted...),
			"per_rule":            rules,
			"analysed":            c.Stats,
			"known_findings":      res.KnownLines,
			"undecided":           len(res.Undecided),
			"unrecognised_shapes": len(res.Unrecognised),
			"exhaustive":          len(res.Unrecognised) == 0,
		},
	}
	for k, v := range c.Extra {
		ev["coverage"].(map[string]any)[k] = v
	}
	evDir := filepath.Join(c.VerifDir, "evidence")
	os.MkdirAll(evDir, 0o755)
	b, _ := json.MarshalIndent(ev, "", " ")
	if err := os.WriteFile(filepath.Join(evDir, c.Property+".json"), append(b, '\n'), 0o644); err != nil {
		fmt.Println("cannot write evidence:", err)
		bad++
	}
	fmt.Printf("property=%s tier=%s obligations=%d discharged=%d known=%d violations=%d undecided=%d unrecognised=%d wall=%.1fs\n",
		c.Property, c.Tier, len(obs), discharged, len(res.Known), len(res.Violations), len(res.Undecided), len(res.Unrecognised), time.Since(start).Seconds())
	if bad > 0 {
		rp := filepath.Join(c.VerifDir, "evidence", "replay", c.Property+".replay.json")
		os.MkdirAll(filepath.Dir(rp), 0o755)
		rb, _ := json.MarshalIndent(map[string]any{"property": c.Property, "tier": c.Tier, "failed": append(res.Violations, res.Undecided...)}, "", " ")
		os.WriteFile(rp, rb, 0o644)
		fmt.Printf("VIOLATION property=%s replay=%s\n", c.Property, rp)
		return 1
	}
	return 0
}

func orq(s string) string {
	if s == "" {
		return "?"
	}
	return s
}

func statsString(m map[string]int) string {
	ks := make([]string, 0, len(m))
	for k := range m {
		ks = append(ks, k)
	}
	sort.Strings(ks)
	var parts []string
	for _, k := range ks {
		parts = append(parts, fmt.Sprintf("%s=%d", k, m[k]))
	}
	return strings.Join(parts, ", ")
}
