// Package astx has the typed-AST utilities shared by the rules: callee resolution, a
// CHA-style call index over repository packages, guard (dominating condition) facts, and
// go/cfg based path predicates.
package astx

import (
	"fmt"
	"go/ast"
	"go/constant"
	"go/token"
	"go/types"
	"sort"
	"strings"

	"golang.org/x/tools/go/packages"
	"golang.org/x/tools/go/types/typeutil"

	"ledgerlint/internal/load"
)

// Callee returns the statically resolved callee of a call (function, concrete method, or
// interface method), or nil for calls of function values / conversions / builtins.
func Callee(info *types.Info, call *ast.CallExpr) *types.Func {
	if f, ok := typeutil.Callee(info, call).(*types.Func); ok {
		return f.Origin()
	}
	return nil
}

// FuncKey renders a stable key "internal/storage/ledger.(Store).UpdateVolumes".
func FuncKey(f *types.Func) string {
	if f == nil {
		return "<nil>"
	}
	pkg := ""
	if f.Pkg() != nil {
		pkg = strings.TrimPrefix(f.Pkg().Path(), load.Module+"/")
	}
	sig, _ := f.Type().(*types.Signature)
	if sig != nil && sig.Recv() != nil {
		return fmt.Sprintf("%s.(%s).%s", pkg, RecvTypeName(sig.Recv().Type()), f.Name())
	}
	return pkg + "." + f.Name()
}

// RecvTypeName returns the named type's name behind pointers / type arguments.
func RecvTypeName(t types.Type) string {
	for {
		switch x := t.(type) {
		case *types.Pointer:
			t = x.Elem()
		case *types.Named:
			return x.Obj().Name()
		case *types.Alias:
			t = types.Unalias(x)
		default:
			return t.String()
		}
	}
}

// Named returns the *types.Named behind pointers and aliases (nil otherwise).
func Named(t types.Type) *types.Named {
	for t != nil {
		switch x := t.(type) {
		case *types.Pointer:
			t = x.Elem()
		case *types.Alias:
			t = types.Unalias(x)
		case *types.Named:
			return x
		default:
			return nil
		}
	}
	return nil
}

// IsNamed reports whether t (behind pointers) is the named type pkgPath.name.
func IsNamed(t types.Type, pkgPath, name string) bool {
	n := Named(t)
	if n == nil || n.Obj().Pkg() == nil {
		return false
	}
	return n.Obj().Name() == name && n.Obj().Pkg().Path() == pkgPath
}

// Site is one call site.
type Site struct {
	Pkg     *packages.Package
	File    *ast.File
	Call    *ast.CallExpr
	Callee  *types.Func
	Encl    *ast.FuncDecl // enclosing top-level declaration (nil at package level)
	EnclObj *types.Func
	InLit   bool // inside a function literal of Encl
}

// Ref is a non-call use of a function object (method value, function value).
type Ref struct {
	Pkg     *packages.Package
	Ident   *ast.Ident
	Obj     *types.Func
	Encl    *ast.FuncDecl
	EnclObj *types.Func
}

// Index is the call index of the repository packages.
type Index struct {
	Prog   *load.Program
	Sites  []*Site
	Refs   []*Ref
	byFunc map[*types.Func][]*Site
	Decls  map[*types.Func]*DeclInfo
	named  []*types.Named
}

type DeclInfo struct {
	Pkg  *packages.Package
	File *ast.File
	Decl *ast.FuncDecl
	Obj  *types.Func
}

// BuildIndex walks every non-generated, non-test file of the repository packages.
func BuildIndex(p *load.Program) *Index {
	ix := &Index{Prog: p, byFunc: map[*types.Func][]*Site{}, Decls: map[*types.Func]*DeclInfo{}}
	for _, pk := range p.RepoPackages() {
		for _, f := range pk.Syntax {
			for _, d := range f.Decls {
				fd, ok := d.(*ast.FuncDecl)
				if !ok {
					// package-level var initialisers
					ast.Inspect(d, func(n ast.Node) bool {
						if call, ok := n.(*ast.CallExpr); ok {
							if cal := Callee(pk.TypesInfo, call); cal != nil {
								s := &Site{Pkg: pk, File: f, Call: call, Callee: cal}
								ix.Sites = append(ix.Sites, s)
								ix.byFunc[cal] = append(ix.byFunc[cal], s)
							}
						}
						return true
					})
					continue
				}
				obj := load.FuncObj(pk, fd)
				if obj != nil {
					ix.Decls[obj] = &DeclInfo{Pkg: pk, File: f, Decl: fd, Obj: obj}
				}
				if fd.Body == nil {
					continue
				}
				// expressions in call position, and identifiers that are the Sel of a selector
				callFuns := map[ast.Expr]bool{}
				selSels := map[*ast.Ident]bool{}
				ast.Inspect(fd.Body, func(n ast.Node) bool {
					switch x := n.(type) {
					case *ast.CallExpr:
						fun := ast.Unparen(x.Fun)
						callFuns[fun] = true
						switch ie := fun.(type) {
						case *ast.IndexExpr:
							callFuns[ast.Unparen(ie.X)] = true
						case *ast.IndexListExpr:
							callFuns[ast.Unparen(ie.X)] = true
						}
					case *ast.SelectorExpr:
						selSels[x.Sel] = true
					}
					return true
				})
				depth := 0
				var visit func(n ast.Node) bool
				visit = func(n ast.Node) bool {
					switch x := n.(type) {
					case *ast.FuncLit:
						depth++
						ast.Inspect(x.Body, visit)
						depth--
						return false
					case *ast.CallExpr:
						if cal := Callee(pk.TypesInfo, x); cal != nil {
							s := &Site{Pkg: pk, File: f, Call: x, Callee: cal, Encl: fd, EnclObj: obj, InLit: depth > 0}
							ix.Sites = append(ix.Sites, s)
							ix.byFunc[cal] = append(ix.byFunc[cal], s)
						}
					case *ast.SelectorExpr:
						if !callFuns[x] {
							if fo, ok := pk.TypesInfo.Uses[x.Sel].(*types.Func); ok {
								ix.Refs = append(ix.Refs, &Ref{Pkg: pk, Ident: x.Sel, Obj: fo.Origin(), Encl: fd, EnclObj: obj})
							}
						}
					case *ast.Ident:
						if !callFuns[x] && !selSels[x] {
							if fo, ok := pk.TypesInfo.Uses[x].(*types.Func); ok {
								ix.Refs = append(ix.Refs, &Ref{Pkg: pk, Ident: x, Obj: fo.Origin(), Encl: fd, EnclObj: obj})
							}
						}
					}
					return true
				}
				ast.Inspect(fd.Body, visit)
			}
		}
	}
	return ix
}

// DirectSites returns call sites whose static callee is exactly f.
func (ix *Index) DirectSites(f *types.Func) []*Site { return ix.byFunc[f] }

// SitesOf returns call sites that may invoke the concrete method or function f: direct
// calls plus calls of an interface method with the same name whose interface the
// receiver type of f implements (class-hierarchy resolution).
func (ix *Index) SitesOf(f *types.Func) []*Site {
	out := append([]*Site(nil), ix.byFunc[f]...)
	sig, _ := f.Type().(*types.Signature)
	if sig == nil || sig.Recv() == nil {
		return out
	}
	recv := sig.Recv().Type()
	for cal, sites := range ix.byFunc {
		if cal == f || cal.Name() != f.Name() {
			continue
		}
		csig, _ := cal.Type().(*types.Signature)
		if csig == nil || csig.Recv() == nil {
			continue
		}
		it, ok := csig.Recv().Type().Underlying().(*types.Interface)
		if !ok {
			continue
		}
		if implementsLoose(recv, it) {
			out = append(out, sites...)
			continue
		}
		// a repository type that implements the interface may promote f through an embedded field
		for _, T := range ix.namedTypes() {
			pt := types.NewPointer(T)
			if !implementsLoose(pt, it) {
				continue
			}
			obj, _, _ := types.LookupFieldOrMethod(pt, true, f.Pkg(), f.Name())
			if fo, ok := obj.(*types.Func); ok && fo.Origin() == f {
				out = append(out, sites...)
				break
			}
		}
	}
	sort.Slice(out, func(i, j int) bool { return out[i].Call.Pos() < out[j].Call.Pos() })
	return out
}

// namedTypes lists the named (non-interface) types declared in repository packages.
func (ix *Index) namedTypes() []*types.Named {
	if ix.named != nil {
		return ix.named
	}
	for _, pk := range ix.Prog.RepoPackages() {
		sc := pk.Types.Scope()
		for _, n := range sc.Names() {
			if tn, ok := sc.Lookup(n).(*types.TypeName); ok {
				if nt, ok := tn.Type().(*types.Named); ok {
					if _, isIface := nt.Underlying().(*types.Interface); !isIface && nt.TypeParams().Len() == 0 {
						ix.named = append(ix.named, nt)
					}
				}
			}
		}
	}
	return ix.named
}

func implementsLoose(t types.Type, it *types.Interface) bool {
	if types.Implements(t, it) {
		return true
	}
	if _, isPtr := t.(*types.Pointer); !isPtr {
		if types.Implements(types.NewPointer(t), it) {
			return true
		}
	}
	// generic interfaces: compare by method names
	if it.NumMethods() > 0 {
		ms := types.NewMethodSet(t)
		if _, isPtr := t.(*types.Pointer); !isPtr {
			ms = types.NewMethodSet(types.NewPointer(t))
		}
		for i := 0; i < it.NumMethods(); i++ {
			if ms.Lookup(it.Method(i).Pkg(), it.Method(i).Name()) == nil {
				return false
			}
		}
		// only accept name-based match when type parameters are involved
		return hasTypeParams(it)
	}
	return false
}

func hasTypeParams(it *types.Interface) bool {
	for i := 0; i < it.NumMethods(); i++ {
		sig := it.Method(i).Type().(*types.Signature)
		for j := 0; j < sig.Params().Len(); j++ {
			if containsTypeParam(sig.Params().At(j).Type(), 0) {
				return true
			}
		}
		for j := 0; j < sig.Results().Len(); j++ {
			if containsTypeParam(sig.Results().At(j).Type(), 0) {
				return true
			}
		}
	}
	return false
}

func containsTypeParam(t types.Type, depth int) bool {
	if depth > 6 {
		return false
	}
	switch x := t.(type) {
	case *types.TypeParam:
		return true
	case *types.Pointer:
		return containsTypeParam(x.Elem(), depth+1)
	case *types.Slice:
		return containsTypeParam(x.Elem(), depth+1)
	case *types.Map:
		return containsTypeParam(x.Key(), depth+1) || containsTypeParam(x.Elem(), depth+1)
	case *types.Named:
		if ta := x.TypeArgs(); ta != nil {
			for i := 0; i < ta.Len(); i++ {
				if containsTypeParam(ta.At(i), depth+1) {
					return true
				}
			}
		}
	case *types.Signature:
		for j := 0; j < x.Params().Len(); j++ {
			if containsTypeParam(x.Params().At(j).Type(), depth+1) {
				return true
			}
		}
		for j := 0; j < x.Results().Len(); j++ {
			if containsTypeParam(x.Results().At(j).Type(), depth+1) {
				return true
			}
		}
	}
	return false
}

// RefsOf returns non-call uses of f (method values and function values).
func (ix *Index) RefsOf(f *types.Func) []*Ref {
	var out []*Ref
	seen := map[token.Pos]bool{}
	for _, r := range ix.Refs {
		if r.Obj == f && !seen[r.Ident.Pos()] {
			seen[r.Ident.Pos()] = true
			out = append(out, r)
		}
	}
	return out
}

// LookupFunc finds a function/method object by package-relative path, receiver and name.
func (ix *Index) LookupFunc(rel, recv, name string) *DeclInfo {
	pk, fd := ix.Prog.FuncDecl(rel, recv, name)
	if pk == nil || fd == nil {
		return nil
	}
	return ix.Decls[load.FuncObj(pk, fd)]
}

// CallsIn returns the call sites lexically inside node n of declaration d (function literals included).
func (ix *Index) CallsIn(pk *packages.Package, n ast.Node) []*ast.CallExpr {
	var out []*ast.CallExpr
	ast.Inspect(n, func(x ast.Node) bool {
		if c, ok := x.(*ast.CallExpr); ok {
			out = append(out, c)
		}
		return true
	})
	return out
}

// ConstString evaluates e to a constant string when the type checker knows its value.
func ConstString(info *types.Info, e ast.Expr) (string, bool) {
	if tv, ok := info.Types[e]; ok && tv.Value != nil && tv.Value.Kind() == constant.String {
		return constant.StringVal(tv.Value), true
	}
	return "", false
}

// ExprString renders an expression compactly (literals elided by go/types).
func ExprString(e ast.Expr) string { return types.ExprString(e) }

// RootIdent returns the identifier at the root of a selector/index/call chain (x in x.a.b(c).d).
func RootIdent(e ast.Expr) *ast.Ident {
	for {
		switch x := ast.Unparen(e).(type) {
		case *ast.Ident:
			return x
		case *ast.SelectorExpr:
			e = x.X
		case *ast.CallExpr:
			e = x.Fun
		case *ast.IndexExpr:
			e = x.X
		case *ast.StarExpr:
			e = x.X
		case *ast.UnaryExpr:
			e = x.X
		case *ast.TypeAssertExpr:
			e = x.X
		default:
			return nil
		}
	}
}

// SelectorPath renders x.a.b as "x.a.b" for pure identifier/selector chains ("" otherwise).
func SelectorPath(e ast.Expr) string {
	switch x := ast.Unparen(e).(type) {
	case *ast.Ident:
		return x.Name
	case *ast.SelectorExpr:
		p := SelectorPath(x.X)
		if p == "" {
			return ""
		}
		return p + "." + x.Sel.Name
	case *ast.StarExpr:
		return SelectorPath(x.X)
	}
	return ""
}
