package astx

import (
	"go/ast"
	"go/token"
	"go/types"
)

// Fact is a condition known to hold (Positive) or not to hold (!Positive) at a program point.
type Fact struct {
	Cond     ast.Expr
	Positive bool
}

// Terminates reports whether control never falls out of the end of the statement list.
func Terminates(info *types.Info, list []ast.Stmt) bool {
	if len(list) == 0 {
		return false
	}
	switch s := list[len(list)-1].(type) {
	case *ast.ReturnStmt:
		return true
	case *ast.BranchStmt:
		return s.Tok == token.BREAK || s.Tok == token.CONTINUE || s.Tok == token.GOTO
	case *ast.ExprStmt:
		if call, ok := s.X.(*ast.CallExpr); ok {
			return IsNoReturnCall(info, call)
		}
	case *ast.BlockStmt:
		return Terminates(info, s.List)
	case *ast.IfStmt:
		if s.Else == nil {
			return false
		}
		if !Terminates(info, s.Body.List) {
			return false
		}
		switch e := s.Else.(type) {
		case *ast.BlockStmt:
			return Terminates(info, e.List)
		case *ast.IfStmt:
			return Terminates(info, []ast.Stmt{e})
		}
	case *ast.SwitchStmt:
		hasDefault := false
		for _, c := range s.Body.List {
			cc := c.(*ast.CaseClause)
			if cc.List == nil {
				hasDefault = true
			}
			if !Terminates(info, cc.Body) || endsInPlainBreak(cc.Body) {
				return false
			}
		}
		return hasDefault
	case *ast.SelectStmt:
		// a select blocks until one clause runs: control leaves the list when every clause does
		// (an unlabelled break only leaves the select)
		for _, c := range s.Body.List {
			cc := c.(*ast.CommClause)
			if !Terminates(info, cc.Body) || endsInPlainBreak(cc.Body) {
				return false
			}
		}
		return len(s.Body.List) > 0
	}
	return false
}

func endsInPlainBreak(list []ast.Stmt) bool {
	if len(list) == 0 {
		return false
	}
	b, ok := list[len(list)-1].(*ast.BranchStmt)
	return ok && b.Tok == token.BREAK && b.Label == nil
}

// IsNoReturnCall recognises panic, os.Exit, log.Fatal*, (*testing.T).Fatal*.
func IsNoReturnCall(info *types.Info, call *ast.CallExpr) bool {
	if id, ok := ast.Unparen(call.Fun).(*ast.Ident); ok && id.Name == "panic" {
		if _, isBuiltin := info.Uses[id].(*types.Builtin); isBuiltin {
			return true
		}
	}
	if f := Callee(info, call); f != nil && f.Pkg() != nil {
		switch f.Pkg().Path() + "." + f.Name() {
		case "os.Exit", "log.Fatal", "log.Fatalf", "log.Fatalln", "log.Panic", "log.Panicf", "runtime.Goexit":
			return true
		}
	}
	return false
}

func within(n ast.Node, pos token.Pos) bool {
	return n != nil && n.Pos() <= pos && pos < n.End()
}

// FactsAt computes conditions known at pos inside body: enclosing if/switch branches and
// preceding early exits (`if c { return }` makes !c hold afterwards). Facts established
// outside a function literal are carried into it (sound only for conditions that do not
// change over time; the rules use it for immutable feature tests and local error checks).
func FactsAt(info *types.Info, body *ast.BlockStmt, pos token.Pos) []Fact {
	var facts []Fact
	var inBlock func(list []ast.Stmt)
	var inStmt func(s ast.Stmt)
	var inExpr func(e ast.Node)

	addCond := func(c ast.Expr, positive bool) {
		facts = append(facts, splitFact(c, positive)...)
	}
	inExpr = func(e ast.Node) {
		// look for function literals containing pos
		ast.Inspect(e, func(n ast.Node) bool {
			if n == nil || !within(n, pos) {
				return false
			}
			if fl, ok := n.(*ast.FuncLit); ok {
				inBlock(fl.Body.List)
				return false
			}
			return true
		})
	}
	inBlock = func(list []ast.Stmt) {
		for i, s := range list {
			if !within(s, pos) {
				continue
			}
			for _, prev := range list[:i] {
				if is, ok := prev.(*ast.IfStmt); ok {
					thenT := Terminates(info, is.Body.List)
					if is.Else == nil {
						if thenT {
							addCond(is.Cond, false)
						}
					} else {
						var elseT bool
						switch e := is.Else.(type) {
						case *ast.BlockStmt:
							elseT = Terminates(info, e.List)
						case *ast.IfStmt:
							elseT = Terminates(info, []ast.Stmt{e})
						}
						if thenT && !elseT {
							addCond(is.Cond, false)
						} else if elseT && !thenT {
							if _, chained := is.Else.(*ast.IfStmt); !chained {
								addCond(is.Cond, true)
							}
						}
					}
				}
			}
			inStmt(s)
			return
		}
	}
	inStmt = func(s ast.Stmt) {
		switch x := s.(type) {
		case *ast.BlockStmt:
			inBlock(x.List)
		case *ast.IfStmt:
			switch {
			case within(x.Body, pos):
				addCond(x.Cond, true)
				inBlock(x.Body.List)
			case x.Else != nil && within(x.Else, pos):
				addCond(x.Cond, false)
				inStmt(x.Else)
			default:
				if x.Init != nil && within(x.Init, pos) {
					inExpr(x.Init)
				} else {
					inExpr(x.Cond)
				}
			}
		case *ast.ForStmt:
			if within(x.Body, pos) {
				inBlock(x.Body.List)
			}
		case *ast.RangeStmt:
			if within(x.Body, pos) {
				inBlock(x.Body.List)
			} else {
				inExpr(x.X)
			}
		case *ast.SwitchStmt:
			for i, c := range x.Body.List {
				cc := c.(*ast.CaseClause)
				if !within(cc, pos) {
					continue
				}
				if x.Tag == nil {
					// earlier cases are false
					for _, pc := range x.Body.List[:i] {
						for _, e := range pc.(*ast.CaseClause).List {
							addCond(e, false)
						}
					}
					if len(cc.List) == 1 {
						addCond(cc.List[0], true)
					}
				} else if len(cc.List) == 1 {
					addCond(&ast.BinaryExpr{X: x.Tag, Op: token.EQL, Y: cc.List[0]}, true)
				}
				inBlock(cc.Body)
			}
		case *ast.TypeSwitchStmt:
			for _, c := range x.Body.List {
				cc := c.(*ast.CaseClause)
				if within(cc, pos) {
					inBlock(cc.Body)
				}
			}
		case *ast.SelectStmt:
			for _, c := range x.Body.List {
				cc := c.(*ast.CommClause)
				if within(cc, pos) {
					inBlock(cc.Body)
				}
			}
		case *ast.LabeledStmt:
			inStmt(x.Stmt)
		case *ast.CaseClause:
			inBlock(x.Body)
		default:
			inExpr(s)
		}
	}
	inBlock(body.List)
	return expandBoolLocals(info, body, facts)
}

// expandBoolLocals appends, after each fact whose condition is a boolean local defined exactly
// once in body (`usePIT := opts.PIT != nil && !opts.PIT.IsZero()`), the facts its definition
// yields, so that naming a condition does not hide it from the rules (sound under the same
// assumption as FactsAt: the operands do not change between the definition and the test).
func expandBoolLocals(info *types.Info, body *ast.BlockStmt, facts []Fact) []Fact {
	var out []Fact
	var add func(f Fact, depth int)
	add = func(f Fact, depth int) {
		out = append(out, f)
		if depth >= 3 {
			return
		}
		id, ok := ast.Unparen(f.Cond).(*ast.Ident)
		if !ok {
			return
		}
		obj := info.ObjectOf(id)
		if obj == nil {
			return
		}
		if v, isVar := obj.(*types.Var); !isVar || v.IsField() {
			return
		}
		if b, isB := obj.Type().Underlying().(*types.Basic); !isB || b.Info()&types.IsBoolean == 0 {
			return
		}
		var defs []ast.Expr
		multi := false
		ast.Inspect(body, func(n ast.Node) bool {
			switch x := n.(type) {
			case *ast.AssignStmt:
				for i, l := range x.Lhs {
					if lid, ok := l.(*ast.Ident); ok && info.ObjectOf(lid) == obj {
						if len(x.Lhs) == len(x.Rhs) {
							defs = append(defs, x.Rhs[i])
						} else {
							multi = true
						}
					}
				}
			case *ast.ValueSpec:
				for i, nm := range x.Names {
					if info.ObjectOf(nm) == obj {
						if i < len(x.Values) {
							defs = append(defs, x.Values[i])
						} else {
							multi = true // declared without a value, assigned later
						}
					}
				}
			case *ast.UnaryExpr:
				if x.Op == token.AND {
					if aid, ok := ast.Unparen(x.X).(*ast.Ident); ok && info.ObjectOf(aid) == obj {
						multi = true
					}
				}
			}
			return true
		})
		if multi || len(defs) != 1 {
			return
		}
		for _, nf := range splitFact(defs[0], f.Positive) {
			add(nf, depth+1)
		}
	}
	for _, f := range facts {
		add(f, 0)
	}
	return out
}

func splitFact(c ast.Expr, positive bool) []Fact {
	c = ast.Unparen(c)
	switch x := c.(type) {
	case *ast.UnaryExpr:
		if x.Op == token.NOT {
			return splitFact(x.X, !positive)
		}
	case *ast.BinaryExpr:
		if x.Op == token.LAND && positive {
			return append(splitFact(x.X, true), splitFact(x.Y, true)...)
		}
		if x.Op == token.LOR && !positive {
			return append(splitFact(x.X, false), splitFact(x.Y, false)...)
		}
		if x.Op == token.NEQ {
			return []Fact{{Cond: &ast.BinaryExpr{X: x.X, Op: token.EQL, Y: x.Y}, Positive: !positive}, {Cond: c, Positive: positive}}
		}
	}
	return []Fact{{Cond: c, Positive: positive}}
}

// FeatureTest describes an expression that tests one feature: a call X.HasFeature(feature,
// value), a call of a helper that only wraps one (FeatureHelpers), or the nil test of the error
// such a helper returned. Flip: the expression is true exactly when the feature is NOT set.
type FeatureTest struct {
	Feature string // constant value, e.g. "MOVES_HISTORY"
	Value   string
	Call    *ast.CallExpr
	Flip    bool
}

// AsFeatureTest recognises feature tests (see FeatureTest).
func AsFeatureTest(info *types.Info, e ast.Expr) *FeatureTest {
	e = ast.Unparen(e)
	switch v := e.(type) {
	case *ast.UnaryExpr:
		if v.Op == token.NOT {
			if ft := AsFeatureTest(info, v.X); ft != nil {
				cp := *ft
				cp.Flip = !cp.Flip
				return &cp
			}
		}
		return nil
	case *ast.BinaryExpr:
		if v.Op != token.EQL && v.Op != token.NEQ {
			return nil
		}
		x, y := v.X, v.Y
		if IsNilExpr(info, x) {
			x, y = y, x
		}
		if !IsNilExpr(info, y) {
			return nil
		}
		var call *ast.CallExpr
		switch xv := ast.Unparen(x).(type) {
		case *ast.Ident:
			obj := info.ObjectOf(xv)
			if obj == nil || FeatureErrAmbiguous[obj] {
				return nil
			}
			call = featureErrDefs[obj]
		case *ast.CallExpr:
			call = xv
		}
		if call == nil {
			return nil
		}
		ft, h := HelperTest(info, call)
		if ft == nil || !h.Err {
			return nil
		}
		ft.Flip = v.Op == token.NEQ // err != nil: the feature is missing
		return ft
	case *ast.CallExpr:
		if ft, h := HelperTest(info, v); ft != nil && !h.Err {
			ft.Flip = h.Flip
			return ft
		}
	}
	call, ok := e.(*ast.CallExpr)
	if !ok {
		return nil
	}
	f := Callee(info, call)
	if f == nil || f.Name() != "HasFeature" || len(call.Args) != 2 {
		return nil
	}
	ft := &FeatureTest{Call: call}
	if s, ok := ConstString(info, call.Args[0]); ok {
		ft.Feature = s
	} else {
		return nil
	}
	if s, ok := ConstString(info, call.Args[1]); ok {
		ft.Value = s
	} else {
		return nil
	}
	return ft
}

// FeatureFacts extracts the feature tests among facts: map "FEATURE=VALUE" -> polarity.
func FeatureFacts(info *types.Info, facts []Fact) map[string]bool {
	out := map[string]bool{}
	for _, f := range facts {
		if ft := AsFeatureTest(info, f.Cond); ft != nil {
			out[ft.Feature+"="+ft.Value] = f.Positive != ft.Flip
		}
	}
	return out
}
