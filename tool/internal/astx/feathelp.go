package astx

import (
	"go/ast"
	"go/token"
	"go/types"
	"strings"
)

// FeatureHelper summarises a function that does nothing but test one ledger feature:
//
//	func (s *Store) hasX() bool              { return s.ledger.HasFeature(F, "ON") }      (Bool)
//	func (s *Store) require(f, v string) error { if !s.ledger.HasFeature(f, v) { return E }; return nil }   (Err)
//
// A call of the helper is then read like the HasFeature call it wraps, with the feature and value
// taken from the helper's constants or from the caller's (constant) arguments.
type FeatureHelper struct {
	FeatArg, ValArg     int // index of the parameter holding the feature / value, -1 when constant
	FeatConst, ValConst string
	Err                 bool // result is an error that is nil exactly when the feature is set
	Flip                bool // Bool helpers: the result is the negation of the test
	Decl                *ast.FuncDecl
}

var (
	// FeatureHelpers is rebuilt by RegisterFeatureHelpers whenever the call index is.
	FeatureHelpers = map[*types.Func]*FeatureHelper{}
	// featureErrDefs maps an error variable to the one Err-helper call that defines it.
	featureErrDefs = map[types.Object]*ast.CallExpr{}
	// FeatureErrAmbiguous: error variables assigned from Err-helper calls more than once (their
	// nil tests are not read as feature tests).
	FeatureErrAmbiguous = map[types.Object]bool{}
)

func paramIndex(info *types.Info, fd *ast.FuncDecl, e ast.Expr) int {
	id, ok := ast.Unparen(e).(*ast.Ident)
	if !ok || fd.Type.Params == nil {
		return -1
	}
	obj := info.ObjectOf(id)
	k := 0
	for _, fl := range fd.Type.Params.List {
		for _, nm := range fl.Names {
			if info.ObjectOf(nm) == obj && obj != nil {
				return k
			}
			k++
		}
	}
	return -1
}

func surelyNonNilError(info *types.Info, e ast.Expr) bool {
	e = ast.Unparen(e)
	if IsNilExpr(info, e) {
		return false
	}
	if t := info.TypeOf(e); t != nil {
		switch t.Underlying().(type) {
		case *types.Interface, *types.Pointer:
		default:
			return true
		}
	}
	switch v := e.(type) {
	case *ast.CallExpr:
		if f := Callee(info, v); f != nil {
			n := f.Name()
			return n == "Errorf" || n == "New" || strings.HasPrefix(n, "NewErr") || strings.HasPrefix(n, "newErr")
		}
	case *ast.UnaryExpr:
		_, isLit := ast.Unparen(v.X).(*ast.CompositeLit)
		return v.Op == token.AND && isLit
	}
	return false
}

// rawFeatureCall: a direct X.HasFeature(a, b) call, possibly under negations.
func rawFeatureCall(info *types.Info, e ast.Expr) (call *ast.CallExpr, neg bool) {
	for {
		e = ast.Unparen(e)
		if u, ok := e.(*ast.UnaryExpr); ok && u.Op == token.NOT {
			neg = !neg
			e = u.X
			continue
		}
		break
	}
	c, ok := e.(*ast.CallExpr)
	if !ok || len(c.Args) != 2 {
		return nil, false
	}
	f := Callee(info, c)
	if f == nil || f.Name() != "HasFeature" {
		return nil, false
	}
	return c, neg
}

func summariseFeatureHelper(d *DeclInfo) *FeatureHelper {
	fd, info := d.Decl, d.Pkg.TypesInfo
	if fd.Body == nil || fd.Type.Results == nil || len(fd.Type.Results.List) != 1 || len(fd.Type.Results.List[0].Names) > 1 {
		return nil
	}
	h := &FeatureHelper{FeatArg: -1, ValArg: -1, Decl: fd}
	bind := func(call *ast.CallExpr) bool {
		if s, ok := ConstString(info, call.Args[0]); ok {
			h.FeatConst = s
		} else if i := paramIndex(info, fd, call.Args[0]); i >= 0 {
			h.FeatArg = i
		} else {
			return false
		}
		if s, ok := ConstString(info, call.Args[1]); ok {
			h.ValConst = s
		} else if i := paramIndex(info, fd, call.Args[1]); i >= 0 {
			h.ValArg = i
		} else {
			return false
		}
		return true
	}
	rt := info.TypeOf(fd.Type.Results.List[0].Type)
	if rt == nil {
		return nil
	}
	list := fd.Body.List
	if b, ok := rt.Underlying().(*types.Basic); ok && b.Info()&types.IsBoolean != 0 {
		if len(list) != 1 {
			return nil
		}
		r, ok := list[0].(*ast.ReturnStmt)
		if !ok || len(r.Results) != 1 {
			return nil
		}
		call, neg := rawFeatureCall(info, r.Results[0])
		if call == nil || !bind(call) {
			return nil
		}
		h.Flip = neg
		return h
	}
	if rt.String() != "error" || len(list) != 2 {
		return nil
	}
	is, ok := list[0].(*ast.IfStmt)
	if !ok || is.Init != nil || is.Else != nil || len(is.Body.List) == 0 {
		return nil
	}
	call, neg := rawFeatureCall(info, is.Cond)
	if call == nil || !bind(call) {
		return nil
	}
	inner, ok1 := is.Body.List[len(is.Body.List)-1].(*ast.ReturnStmt)
	last, ok2 := list[1].(*ast.ReturnStmt)
	if !ok1 || !ok2 || len(inner.Results) != 1 || len(last.Results) != 1 {
		return nil
	}
	// the branch taken when the feature is NOT set returns a surely non-nil error, the other nil
	missing, has := inner, last
	if !neg {
		missing, has = last, inner
	}
	if !surelyNonNilError(info, missing.Results[0]) || !IsNilExpr(info, has.Results[0]) {
		return nil
	}
	h.Err = true
	return h
}

// RegisterFeatureHelpers rebuilds the helper summaries and the error-variable map from ix.
func RegisterFeatureHelpers(ix *Index) {
	FeatureHelpers = map[*types.Func]*FeatureHelper{}
	featureErrDefs = map[types.Object]*ast.CallExpr{}
	FeatureErrAmbiguous = map[types.Object]bool{}
	for f, d := range ix.Decls {
		if h := summariseFeatureHelper(d); h != nil {
			FeatureHelpers[f] = h
		}
	}
	if len(FeatureHelpers) == 0 {
		return
	}
	for _, d := range ix.Decls {
		if d.Decl.Body == nil {
			continue
		}
		info := d.Pkg.TypesInfo
		ast.Inspect(d.Decl.Body, func(n ast.Node) bool {
			as, ok := n.(*ast.AssignStmt)
			if !ok || len(as.Lhs) != 1 || len(as.Rhs) != 1 {
				return true
			}
			id, ok := as.Lhs[0].(*ast.Ident)
			if !ok {
				return true
			}
			obj := info.ObjectOf(id)
			if obj == nil {
				return true
			}
			call, isCall := ast.Unparen(as.Rhs[0]).(*ast.CallExpr)
			var h *FeatureHelper
			if isCall {
				if f := Callee(info, call); f != nil {
					h = FeatureHelpers[f]
					if h == nil {
						h = FeatureHelpers[f.Origin()]
					}
				}
			}
			if h == nil || !h.Err {
				// any other assignment to a variable that also holds a helper result
				if _, had := featureErrDefs[obj]; had {
					FeatureErrAmbiguous[obj] = true
				}
				return true
			}
			if _, had := featureErrDefs[obj]; had {
				FeatureErrAmbiguous[obj] = true
			}
			featureErrDefs[obj] = call
			return true
		})
	}
}

// HelperTest reads call as a feature test when its callee is a summarised helper.
func HelperTest(info *types.Info, call *ast.CallExpr) (*FeatureTest, *FeatureHelper) {
	f := Callee(info, call)
	if f == nil {
		return nil, nil
	}
	h := FeatureHelpers[f]
	if h == nil {
		h = FeatureHelpers[f.Origin()]
	}
	if h == nil {
		return nil, nil
	}
	ft := &FeatureTest{Call: call, Feature: h.FeatConst, Value: h.ValConst}
	if h.FeatArg >= 0 {
		if h.FeatArg >= len(call.Args) {
			return nil, nil
		}
		s, ok := ConstString(info, call.Args[h.FeatArg])
		if !ok {
			return nil, nil
		}
		ft.Feature = s
	}
	if h.ValArg >= 0 {
		if h.ValArg >= len(call.Args) {
			return nil, nil
		}
		s, ok := ConstString(info, call.Args[h.ValArg])
		if !ok {
			return nil, nil
		}
		ft.Value = s
	}
	return ft, h
}
