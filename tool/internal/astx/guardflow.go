package astx

import (
	"go/ast"
	"go/types"

	"golang.org/x/tools/go/cfg"
)

// GuardState is what a path knows when it reaches a point: whether it executed the target
// node and which guard bits it has established (bits are assigned by the caller).
type GuardState struct {
	Visited bool
	Mask    uint64
}

// ExitStates is the set of states with which paths can reach one exit.
type ExitStates struct {
	Exit   Exit
	States []GuardState
}

// edgeFacts returns the facts implied by taking the edge from -> to (if-edges only).
func edgeFacts(from, to *cfg.Block) []Fact {
	if len(from.Nodes) == 0 {
		return nil
	}
	is, ok := to.Stmt.(*ast.IfStmt)
	if !ok {
		return nil
	}
	last, ok := from.Nodes[len(from.Nodes)-1].(ast.Expr)
	if !ok || last != is.Cond {
		return nil
	}
	switch to.Kind {
	case cfg.KindIfThen:
		return splitFact(is.Cond, true)
	case cfg.KindIfElse, cfg.KindIfDone:
		return splitFact(is.Cond, false)
	}
	return nil
}

// PropagateGuards runs a forward dataflow over the graph. A path's state becomes Visited when
// it executes the cfg node containing target; bit(fact) gives the guard bits a branch fact
// establishes (0 for none). The result lists, per exit, the distinct states reaching it.
func (f *Flow) PropagateGuards(target ast.Node, bit func(Fact) uint64) []ExitStates {
	tl, ok := f.Locate(target)
	if !ok {
		return nil
	}
	type key struct {
		b *cfg.Block
		s GuardState
	}
	seen := map[key]bool{}
	exitStates := map[*cfg.Block]map[GuardState]bool{}
	exits := f.Exits()
	exitAt := map[*cfg.Block][]Exit{}
	for _, e := range exits {
		exitAt[e.Block] = append(exitAt[e.Block], e)
	}
	type item struct {
		b *cfg.Block
		s GuardState
	}
	if len(f.G.Blocks) == 0 {
		return nil
	}
	work := []item{{f.G.Blocks[0], GuardState{}}}
	perExit := map[int]map[GuardState]bool{}
	for len(work) > 0 {
		it := work[len(work)-1]
		work = work[:len(work)-1]
		k := key{it.b, it.s}
		if seen[k] {
			continue
		}
		seen[k] = true
		s := it.s
		for i := range it.b.Nodes {
			if it.b == tl.Block && i == tl.Idx {
				s.Visited = true
			}
			for ei, e := range exits {
				if e.Block == it.b && e.Idx == i {
					if perExit[ei] == nil {
						perExit[ei] = map[GuardState]bool{}
					}
					perExit[ei][s] = true
				}
			}
		}
		for ei, e := range exits {
			if e.Block == it.b && e.Idx >= len(it.b.Nodes) {
				if perExit[ei] == nil {
					perExit[ei] = map[GuardState]bool{}
				}
				perExit[ei][s] = true
			}
		}
		for _, nx := range it.b.Succs {
			ns := s
			for _, ft := range edgeFacts(it.b, nx) {
				ns.Mask |= bit(ft)
			}
			work = append(work, item{nx, ns})
		}
	}
	_ = exitStates
	var out []ExitStates
	for ei, e := range exits {
		es := ExitStates{Exit: e}
		for s := range perExit[ei] {
			es.States = append(es.States, s)
		}
		out = append(out, es)
	}
	return out
}

// InnermostFuncBody returns the body of the innermost function (declaration or literal)
// of fd that contains n.
func InnermostFuncBody(fd *ast.FuncDecl, n ast.Node) *ast.BlockStmt {
	body := fd.Body
	ast.Inspect(fd.Body, func(x ast.Node) bool {
		if fl, ok := x.(*ast.FuncLit); ok && fl.Body.Pos() <= n.Pos() && n.End() <= fl.Body.End() {
			body = fl.Body
		}
		return true
	})
	return body
}

// FeatureBit maps feature facts to bits using the given ordered list of "FEATURE=VALUE" conditions
// (positive facts only).
func FeatureBit(info *types.Info, conds []string) func(Fact) uint64 {
	return func(ft Fact) uint64 {
		t := AsFeatureTest(info, ft.Cond)
		if t == nil || ft.Positive == t.Flip {
			return 0
		}
		for i, c := range conds {
			if c == t.Feature+"="+t.Value {
				return 1 << uint(i)
			}
		}
		return 0
	}
}

// CountOnPaths returns, per exit, the set of distinct numbers (capped at 3) of cfg nodes
// matching `match` that a path from the entry to that exit can execute.
func (f *Flow) CountOnPaths(match func(ast.Node) bool) map[int]map[int]bool {
	type key struct {
		b *cfg.Block
		n int
	}
	exits := f.Exits()
	out := map[int]map[int]bool{}
	if len(f.G.Blocks) == 0 {
		return out
	}
	seen := map[key]bool{}
	work := []key{{f.G.Blocks[0], 0}}
	for len(work) > 0 {
		it := work[len(work)-1]
		work = work[:len(work)-1]
		if seen[it] {
			continue
		}
		seen[it] = true
		n := it.n
		for i, nd := range it.b.Nodes {
			for ei, e := range exits {
				if e.Block == it.b && e.Idx == i {
					if out[ei] == nil {
						out[ei] = map[int]bool{}
					}
					out[ei][n] = true
				}
			}
			if match(nd) && n < 3 {
				n++
			}
		}
		for ei, e := range exits {
			if e.Block == it.b && e.Idx >= len(it.b.Nodes) {
				if out[ei] == nil {
					out[ei] = map[int]bool{}
				}
				out[ei][n] = true
			}
		}
		for _, nx := range it.b.Succs {
			work = append(work, key{nx, n})
		}
	}
	return out
}
