package astx

import (
	"go/ast"
	"go/token"
	"go/types"

	"golang.org/x/tools/go/cfg"
)

// Flow wraps a go/cfg graph of one function body with node lookup and dominators.
type Flow struct {
	Info    *types.Info
	G       *cfg.CFG
	idom    []int
	domSets [][]bool
	assume  []Assumption
}

// NewFlow builds the control-flow graph of body (function literals are opaque nodes).
func NewFlow(info *types.Info, body *ast.BlockStmt) *Flow {
	g := cfg.New(body, func(call *ast.CallExpr) bool { return !IsNoReturnCall(info, call) })
	f := &Flow{Info: info, G: g}
	f.computeDominators()
	return f
}

func (f *Flow) computeDominators() {
	n := len(f.G.Blocks)
	preds := make([][]int, n)
	for _, b := range f.G.Blocks {
		for _, s := range b.Succs {
			preds[s.Index] = append(preds[s.Index], int(b.Index))
		}
	}
	// iterative dataflow: dom sets as bitsets
	dom := make([][]bool, n)
	for i := range dom {
		dom[i] = make([]bool, n)
		for j := range dom[i] {
			dom[i][j] = true
		}
	}
	if n == 0 {
		return
	}
	for j := range dom[0] {
		dom[0][j] = j == 0
	}
	changed := true
	for changed {
		changed = false
		for i := 1; i < n; i++ {
			nd := make([]bool, n)
			first := true
			for _, p := range preds[i] {
				if first {
					copy(nd, dom[p])
					first = false
				} else {
					for j := range nd {
						nd[j] = nd[j] && dom[p][j]
					}
				}
			}
			if first {
				// unreachable block: dominated by everything (vacuous)
				for j := range nd {
					nd[j] = true
				}
			}
			nd[i] = true
			for j := range nd {
				if nd[j] != dom[i][j] {
					changed = true
					break
				}
			}
			dom[i] = nd
		}
	}
	f.idom = nil
	f.domSets = dom
}

// Loc is the position of an AST node inside the graph.
type Loc struct {
	Block *cfg.Block
	Idx   int
}

// Locate finds the block node that contains the AST node n (by position range).
func (f *Flow) Locate(n ast.Node) (Loc, bool) {
	for _, b := range f.G.Blocks {
		for i, nd := range b.Nodes {
			if nd.Pos() <= n.Pos() && n.End() <= nd.End() {
				// prefer the innermost: cfg nodes do not nest except via FuncLit, so first hit is fine
				return Loc{b, i}, true
			}
		}
	}
	return Loc{}, false
}

// Dominates reports whether every path from the entry to b passes through a first.
func (f *Flow) Dominates(a, b ast.Node) bool {
	la, ok1 := f.Locate(a)
	lb, ok2 := f.Locate(b)
	if !ok1 || !ok2 {
		return false
	}
	if la.Block == lb.Block {
		return la.Idx < lb.Idx || (la.Idx == lb.Idx && a.Pos() <= b.Pos())
	}
	return f.domSets[lb.Block.Index][la.Block.Index]
}

// Reachable reports whether b can execute after a.
func (f *Flow) Reachable(a, b ast.Node) bool {
	la, ok1 := f.Locate(a)
	lb, ok2 := f.Locate(b)
	if !ok1 || !ok2 {
		return false
	}
	if la.Block == lb.Block && la.Idx < lb.Idx {
		return true
	}
	seen := map[int32]bool{}
	var stack []*cfg.Block
	stack = append(stack, la.Block.Succs...)
	for len(stack) > 0 {
		b := stack[len(stack)-1]
		stack = stack[:len(stack)-1]
		if seen[b.Index] {
			continue
		}
		seen[b.Index] = true
		if b == lb.Block {
			return true
		}
		stack = append(stack, b.Succs...)
	}
	return false
}

// Exit describes one way control leaves the function normally.
type Exit struct {
	Return *ast.ReturnStmt // nil when falling off the end
	Block  *cfg.Block
	Idx    int
}

// Exits lists the normal exits (return statements and falling off the end) that are
// reachable from the entry.
func (f *Flow) Exits() []Exit {
	var out []Exit
	for _, b := range f.G.Blocks {
		if !b.Live {
			continue
		}
		for i, nd := range b.Nodes {
			if r, ok := nd.(*ast.ReturnStmt); ok {
				out = append(out, Exit{Return: r, Block: b, Idx: i})
			}
		}
		if len(b.Succs) == 0 {
			if len(b.Nodes) > 0 {
				last := b.Nodes[len(b.Nodes)-1]
				if _, ok := last.(*ast.ReturnStmt); ok {
					continue
				}
				if es, ok := last.(*ast.ExprStmt); ok {
					if call, ok := es.X.(*ast.CallExpr); ok && IsNoReturnCall(f.Info, call) {
						continue
					}
				}
			}
			out = append(out, Exit{Block: b, Idx: len(b.Nodes)})
		}
	}
	return out
}

// Assumption is a branch condition with a known truth value on the paths explored.
type Assumption struct {
	Cond  string // types.ExprString of the condition
	Value bool
}

// edgeAllowed prunes if-edges that contradict the assumptions: the true edge of `if c` when
// c is assumed false, the false edge when c is assumed true (also through !c and the
// conjuncts/disjuncts that decide the condition).
func edgeAllowed(from, to *cfg.Block, assume []Assumption) bool {
	if len(assume) == 0 || len(from.Nodes) == 0 || len(from.Succs) != 2 {
		return true
	}
	// a block with two successors ends in a condition: Succs[0] is its true edge, Succs[1] its
	// false edge (go/cfg decomposes && and || into such blocks)
	last, ok := from.Nodes[len(from.Nodes)-1].(ast.Expr)
	if !ok || from.Succs[0] == from.Succs[1] {
		return true
	}
	edge := to == from.Succs[0]
	if v, known := evalCond(last, assume); known && v != edge {
		return false
	}
	return true
}

// evalCond evaluates a condition under assumptions when they decide it.
func evalCond(c ast.Expr, assume []Assumption) (val, known bool) {
	c = ast.Unparen(c)
	s := types.ExprString(c)
	for _, a := range assume {
		if a.Cond == s {
			return a.Value, true
		}
	}
	switch x := c.(type) {
	case *ast.UnaryExpr:
		if x.Op == token.NOT {
			if v, k := evalCond(x.X, assume); k {
				return !v, true
			}
		}
	case *ast.BinaryExpr:
		switch x.Op {
		case token.LAND:
			lv, lk := evalCond(x.X, assume)
			rv, rk := evalCond(x.Y, assume)
			if (lk && !lv) || (rk && !rv) {
				return false, true
			}
			if lk && rk {
				return true, true
			}
		case token.LOR:
			lv, lk := evalCond(x.X, assume)
			rv, rk := evalCond(x.Y, assume)
			if (lk && lv) || (rk && rv) {
				return true, true
			}
			if lk && rk {
				return false, true
			}
		}
	}
	return false, false
}

// PathAvoidingAssuming is PathAvoiding restricted to paths consistent with the assumptions.
func (f *Flow) PathAvoidingAssuming(from ast.Node, e Exit, stop func(ast.Node) bool, assume []Assumption) bool {
	f.assume = assume
	defer func() { f.assume = nil }()
	return f.PathAvoiding(from, e, stop)
}

// PathAvoiding reports whether some path from `from` (exclusive; nil = function entry) to the
// exit e does not contain any node for which stop returns true.
func (f *Flow) PathAvoiding(from ast.Node, e Exit, stop func(ast.Node) bool) bool {
	type state struct {
		b   *cfg.Block
		idx int
	}
	var start state
	if from == nil {
		if len(f.G.Blocks) == 0 {
			return false
		}
		start = state{f.G.Blocks[0], 0}
	} else {
		l, ok := f.Locate(from)
		if !ok {
			return true
		}
		start = state{l.Block, l.Idx + 1}
	}
	seen := map[int32]bool{}
	var walk func(s state) bool
	walk = func(s state) bool {
		for i := s.idx; i < len(s.b.Nodes); i++ {
			if s.b == e.Block && i == e.Idx {
				return true
			}
			if stop(s.b.Nodes[i]) {
				return false
			}
		}
		if s.b == e.Block && e.Idx >= len(s.b.Nodes) {
			return true
		}
		for _, nx := range s.b.Succs {
			if seen[nx.Index] || !edgeAllowed(s.b, nx, f.assume) {
				continue
			}
			seen[nx.Index] = true
			if walk(state{nx, 0}) {
				return true
			}
		}
		return false
	}
	return walk(start)
}

// ContainsCallTo returns a predicate matching cfg nodes that contain (outside function
// literals) a call whose callee satisfies match.
func ContainsCallTo(info *types.Info, match func(*types.Func, *ast.CallExpr) bool) func(ast.Node) bool {
	return func(n ast.Node) bool {
		found := false
		ast.Inspect(n, func(x ast.Node) bool {
			if found {
				return false
			}
			switch c := x.(type) {
			case *ast.FuncLit:
				return false
			case *ast.CallExpr:
				if f := Callee(info, c); f != nil && match(f, c) {
					found = true
					return false
				}
			}
			return true
		})
		return found
	}
}

// IsNilExpr reports whether e is the predeclared nil.
func IsNilExpr(info *types.Info, e ast.Expr) bool {
	id, ok := ast.Unparen(e).(*ast.Ident)
	if !ok || id.Name != "nil" {
		return false
	}
	_, isNil := info.Uses[id].(*types.Nil)
	return isNil
}

// ErrNonNilFact returns +1 if facts prove `name != nil`, -1 if they prove `name == nil`, 0 otherwise.
func ErrNonNilFact(info *types.Info, facts []Fact, obj types.Object) int {
	res := 0
	for _, ft := range facts {
		be, ok := ast.Unparen(ft.Cond).(*ast.BinaryExpr)
		if !ok || (be.Op != token.EQL && be.Op != token.NEQ) {
			continue
		}
		var id *ast.Ident
		if IsNilExpr(info, be.Y) {
			id, _ = ast.Unparen(be.X).(*ast.Ident)
		} else if IsNilExpr(info, be.X) {
			id, _ = ast.Unparen(be.Y).(*ast.Ident)
		}
		if id == nil || info.Uses[id] != obj {
			continue
		}
		nonNil := (be.Op == token.NEQ) == ft.Positive
		if nonNil {
			res = 1
		} else {
			res = -1
		}
	}
	return res
}
