package main

import (
	"encoding/json"
	"flag"
	"fmt"
	"os"
	"path/filepath"
	"runtime/debug"
	"sort"
	"strconv"
	"strings"
	"time"

	"ledgerlint/internal/core"
	"ledgerlint/internal/rules"
)

func usage() {
	fmt.Fprintln(os.Stderr, `usage:
  ledgerlint check --property Cxx [--tier quick|thorough] [--repo /repo] [--verif /verif] [--overlay path=file]...
  ledgerlint replay <replay.json>
  ledgerlint list
  ledgerlint warm
  ledgerlint dump sql|bun|calls [args]`)
	os.Exit(2)
}

type overlayFlag []string

func (o *overlayFlag) String() string     { return strings.Join(*o, ",") }
func (o *overlayFlag) Set(s string) error { *o = append(*o, s); return nil }

func main() {
	if len(os.Args) < 2 {
		usage()
	}
	switch os.Args[1] {
	case "check":
		os.Exit(cmdCheck(os.Args[2:]))
	case "anchors":
		// ledgerlint anchors [--repo dir] [--verif dir]: record the functions of the tree as the baseline for rename detection
		fs := flag.NewFlagSet("anchors", flag.ExitOnError)
		repo := fs.String("repo", "/repo", "repository directory")
		verif := fs.String("verif", "/verif", "verification directory")
		fs.Parse(os.Args[2:])
		c := core.NewCtx("anchors", "quick", *repo, *verif)
		if err := rules.WriteAnchors(c, *verif); err != nil {
			fmt.Println("anchors:", err)
			os.Exit(2)
		}
		fmt.Println("written", filepath.Join(*verif, "anchors.json"))
	case "checkall":
		os.Exit(cmdCheckAll(os.Args[2:]))
	case "replay":
		if len(os.Args) < 3 {
			usage()
		}
		b, err := os.ReadFile(os.Args[2])
		if err != nil {
			fmt.Println("cannot read replay file:", err)
			os.Exit(2)
		}
		var r struct {
			Property string `json:"property"`
			Tier     string `json:"tier"`
		}
		if err := json.Unmarshal(b, &r); err != nil || r.Property == "" {
			fmt.Println("invalid replay file")
			os.Exit(2)
		}
		os.Exit(cmdCheck([]string{"--property", r.Property, "--tier", r.Tier}))
	case "list":
		for _, id := range rules.Properties() {
			fmt.Println(id)
		}
	case "warm":
		c := core.NewCtx("warm", "quick", "/repo", "/verif")
		t0 := time.Now()
		c.Prog()
		c.Catalog()
		fmt.Printf("warm: %d packages, %d migrations in %.1fs\n", len(c.Prog().ByPath), c.Catalog().Files, time.Since(t0).Seconds())
	case "dump":
		cmdDump(os.Args[2:])
	default:
		usage()
	}
}

func cmdCheck(args []string) (code int) {
	fs := flag.NewFlagSet("check", flag.ExitOnError)
	prop := fs.String("property", "", "property id")
	tier := fs.String("tier", "", "quick|thorough")
	repo := fs.String("repo", "/repo", "repository directory")
	verif := fs.String("verif", "/verif", "verification directory")
	noEvidence := fs.Bool("no-evidence", false, "do not write evidence (used by self-tests)")
	var overlays overlayFlag
	fs.Var(&overlays, "overlay", "path=file: analyse file's contents in place of path")
	fs.Parse(args)
	if *tier == "" {
		*tier = os.Getenv("VERIF_TIER")
	}
	if *tier == "" {
		*tier = "quick"
	}
	if *prop == "" {
		usage()
	}
	check := rules.Lookup(*prop)
	start := time.Now()
	c := core.NewCtx(*prop, *tier, *repo, *verif)
	if s := os.Getenv("VERIF_SEED"); s != "" {
		if v, err := strconv.ParseInt(s, 10, 64); err == nil {
			c.Seed = v
		}
	}
	if len(overlays) > 0 {
		c.Overlay = map[string][]byte{}
		for _, o := range overlays {
			i := strings.IndexByte(o, '=')
			if i < 0 {
				usage()
			}
			b, err := os.ReadFile(o[i+1:])
			if err != nil {
				fmt.Println("overlay:", err)
				return 2
			}
			p := o[:i]
			if !filepath.IsAbs(p) {
				p = filepath.Join(*repo, p)
			}
			c.Overlay[p] = b
		}
	}
	if *noEvidence {
		c.VerifDir = os.Getenv("LEDGERLINT_SCRATCH")
		if c.VerifDir == "" {
			c.VerifDir = filepath.Join(os.TempDir(), fmt.Sprintf("ledgerlint-scratch-%d", os.Getpid()))
		}
		defer os.RemoveAll(c.VerifDir)
	}
	findings, err := core.LoadFindings(*verif)
	if err != nil {
		fmt.Println("cannot read known_findings.json:", err)
		c.Unknown("framework", "known-findings-file", "", err.Error())
	}
	if check == nil {
		fmt.Printf("no check registered for %s\n", *prop)
		c.Unknown("framework", "check-registered", "", "no check registered for this property")
		return c.Finish(start, "other", findings)
	}
	func() {
		defer func() {
			if r := recover(); r != nil {
				if a, ok := r.(core.Abort); ok {
					c.Unknown("framework", "analysis-abort", "", a.Msg)
					return
				}
				c.Unknown("framework", "analyzer-panic", "", fmt.Sprintf("%v\n%s", r, lastLines(string(debug.Stack()), 30)))
			}
		}()
		rules.NormaliseRenames(c, *verif)
		check(c)
	}()
	if *tier == "thorough" && !*noEvidence {
		self, err := os.Executable()
		if err == nil {
			if res := rules.RunBreakers(c, self); res != nil {
				c.Extra = map[string]any{"selftest_breakers": res}
			}
		}
	}
	return c.Finish(start, "other", findings)
}

// cmdCheckAll runs several properties in one process, sharing the loaded program (development
// aid for evaluating seeded changes; the registered commands always run one property each).
func cmdCheckAll(args []string) int {
	fs := flag.NewFlagSet("checkall", flag.ExitOnError)
	props := fs.String("props", "", "comma-separated property ids (default: all registered)")
	repo := fs.String("repo", "/repo", "repository directory")
	verif := fs.String("verif", "/verif", "verification directory")
	fs.Parse(args)
	var ids []string
	if *props != "" {
		ids = strings.Split(*props, ",")
	} else {
		ids = rules.Properties()
	}
	findings, _ := core.LoadFindings(*verif)
	scratch := filepath.Join(os.TempDir(), fmt.Sprintf("ledgerlint-scratch-%d", os.Getpid()))
	defer os.RemoveAll(scratch)
	var first *core.Ctx
	rc := 0
	for _, id := range ids {
		check := rules.Lookup(id)
		if check == nil {
			continue
		}
		start := time.Now()
		c := core.NewCtx(id, "quick", *repo, *verif)
		c.VerifDir = scratch
		func() {
			defer func() {
				if r := recover(); r != nil {
					if a, ok := r.(core.Abort); ok {
						c.Unknown("framework", "analysis-abort", "", a.Msg)
						return
					}
					c.Unknown("framework", "analyzer-panic", "", fmt.Sprintf("%v\n%s", r, lastLines(string(debug.Stack()), 30)))
				}
			}()
			if first == nil {
				first = c
				rules.NormaliseRenames(c, *verif)
			} else {
				c.Overlay = first.Overlay
				c.ShareFrom(first)
			}
			check(c)
		}()
		if c.Finish(start, "other", findings) != 0 {
			rc = 1
		}
	}
	return rc
}

func lastLines(s string, n int) string {
	lines := strings.Split(s, "\n")
	if len(lines) > n {
		lines = lines[:n]
	}
	return strings.Join(lines, "\n")
}

func cmdDump(args []string) {
	if len(args) == 0 {
		usage()
	}
	c := core.NewCtx("dump", "quick", "/repo", "/verif")
	switch args[0] {
	case "sql":
		rules.DumpSQL(c)
	case "bun":
		rules.DumpBun(c, args[1:])
	default:
		usage()
	}
	_ = sort.Strings
}
