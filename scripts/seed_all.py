#!/usr/bin/env python3
"""Evaluate every seeded change under /verif/seeded/<id>/<k>/ and write RESULTS.md.

usage: seed_all.py [--import /tmp/seed_out] [--only C05,C07] [--all-checks]
--import copies new <id>/<k>/ directories (patch.diff, demo*, meta.json) from the given
directory into /verif/seeded first. Each change is applied to /repo, the checks are run, and
the change is undone again; /repo must be clean.
"""
import glob, json, os, shutil, subprocess, sys

SEEDED = "/verif/seeded"
REPO = "/repo"
LINT = "/verif/bin/ledgerlint"


def sh(cmd):
    return subprocess.run(cmd, shell=True, capture_output=True, text=True)


def claimed():
    m = json.load(open("/verif/MANIFEST.json"))
    return [c["property_id"] for c in m["checks"]]


def evaluate(d, props):
    st = sh(f"git -C {REPO} status --porcelain")
    if st.stdout.strip():
        raise SystemExit("repo not clean: " + st.stdout)
    ap = sh(f"git -C {REPO} apply --whitespace=nowarn {d}/patch.diff")
    if ap.returncode != 0:
        return {"applies": False, "fired": [], "lines": {}, "err": ap.stderr[:300]}
    fired, lines = [], {}
    try:
        for p in props:
            r = sh(f"{LINT} check --property {p} --tier quick --no-evidence")
            if r.returncode != 0:
                fired.append(p)
                lines[p] = [l for l in r.stdout.splitlines() if "] " in l and not l.startswith("property=") and not l.startswith("KNOWN-FINDING")][:4]
    finally:
        sh(f"git -C {REPO} checkout -- . && git -C {REPO} clean -fdq")
    return {"applies": True, "fired": fired, "lines": lines}


def main():
    args = sys.argv[1:]
    only = None
    allchecks = "--all-checks" in args
    if "--only" in args:
        only = set(args[args.index("--only") + 1].split(","))
    if "--import" in args:
        src = args[args.index("--import") + 1]
        for d in sorted(glob.glob(os.path.join(src, "C*", "*"))):
            if not os.path.exists(os.path.join(d, "patch.diff")) or os.path.getsize(os.path.join(d, "patch.diff")) == 0:
                continue
            rel = os.path.relpath(d, src)
            dst = os.path.join(SEEDED, rel)
            if os.path.exists(dst):
                continue
            os.makedirs(dst, exist_ok=True)
            for f in os.listdir(d):
                if os.path.isfile(os.path.join(d, f)) and os.path.getsize(os.path.join(d, f)) < 200_000:
                    shutil.copy(os.path.join(d, f), os.path.join(dst, f))
            print("imported", rel)
    props_all = claimed()
    rows = []
    for d in sorted(glob.glob(os.path.join(SEEDED, "C*", "*"))):
        if not os.path.exists(os.path.join(d, "patch.diff")):
            continue
        pid = os.path.basename(os.path.dirname(d))
        k = os.path.basename(d)
        resf = os.path.join(d, "result.txt")
        if only is not None and pid not in only and os.path.exists(resf):
            rows.append((pid, k, open(resf).read()))
            continue
        if only is None and os.path.exists(resf) and "--force" not in args:
            rows.append((pid, k, open(resf).read()))
            continue
        props = props_all if allchecks else ([pid] if pid in props_all else [])
        res = evaluate(d, props)
        summary = ""
        try:
            summary = json.load(open(os.path.join(d, "meta.json"))).get("summary", "")
        except Exception:
            pass
        own = "n/a" if pid not in props_all else ("FIRED" if pid in res["fired"] else "MISSED")
        if not res["applies"]:
            own = "STALE (patch no longer applies)"
        txt = f"own={own}\nfired={','.join(res['fired'])}\nsummary={summary}\n"
        for p, ls in res["lines"].items():
            for l in ls:
                txt += f"  {p}: {l[:300]}\n"
        open(resf, "w").write(txt)
        rows.append((pid, k, txt))
        print(pid, k, own, ",".join(res["fired"]))
    with open(os.path.join(SEEDED, "RESULTS.md"), "w") as f:
        f.write("# Seeded changes and what the checks say\n\n")
        f.write("Each row is one change produced by an independent sub-agent that saw only the property text.\n")
        f.write("`own` = verdict of the check of the property the change was written against; `fired` = every check that fired when all were run.\n\n")
        f.write("| property | k | own | fired | change | rule(s) that reported it |\n|---|---|---|---|---|---|\n")
        tot = hit = 0
        for pid, k, txt in rows:
            kv = dict(l.split("=", 1) for l in txt.splitlines() if "=" in l and not l.startswith(" "))
            rules = sorted({l.split("[")[1].split("]")[0] for l in txt.splitlines() if l.startswith("  ") and "[" in l})
            if kv.get("own") in ("FIRED", "MISSED"):
                tot += 1
                hit += kv.get("own") == "FIRED"
            f.write(f"| {pid} | {k} | {kv.get('own','')} | {kv.get('fired','')} | {kv.get('summary','').replace('|','/')[:160]} | {', '.join(rules)} |\n")
        f.write(f"\nSummary: {hit} of {tot} seeded changes against claimed properties are reported by the property's own check.\n")
    print("written", os.path.join(SEEDED, "RESULTS.md"))


if __name__ == "__main__":
    main()
