#!/usr/bin/env python3
"""Apply one seeded change to /repo, run ledgerlint checks, undo the change.

usage: seed_eval.py <dir-with-patch.diff> [--all] [--props C01,C02]
Prints, per property checked, whether the check fired and the first violation lines.
The patch is always reverted (git checkout -- . && git clean) before exiting.
"""
import json, os, subprocess, sys

REPO = "/repo"
LINT = "/verif/bin/ledgerlint"


def sh(cmd, **kw):
    return subprocess.run(cmd, shell=True, capture_output=True, text=True, **kw)


def main():
    d = sys.argv[1].rstrip("/")
    patch = os.path.join(d, "patch.diff")
    meta = {}
    if os.path.exists(os.path.join(d, "meta.json")):
        try:
            meta = json.load(open(os.path.join(d, "meta.json")))
        except Exception:
            meta = {}
    prop = meta.get("property") or os.path.basename(os.path.dirname(d))
    props = [prop]
    if "--all" in sys.argv:
        m = json.load(open("/verif/MANIFEST.json"))
        props = [c["property_id"] for c in m["checks"]]
    for i, a in enumerate(sys.argv):
        if a == "--props":
            props = sys.argv[i + 1].split(",")
    st = sh(f"git -C {REPO} status --porcelain")
    if st.stdout.strip():
        print("REPO NOT CLEAN, refusing:", st.stdout)
        sys.exit(2)
    ap = sh(f"git -C {REPO} apply --whitespace=nowarn {patch}")
    if ap.returncode != 0:
        print("PATCH DOES NOT APPLY:", ap.stderr[:500])
        sys.exit(3)
    fired = []
    try:
        for p in props:
            r = sh(f"{LINT} check --property {p} --tier quick --no-evidence")
            lines = [l for l in r.stdout.splitlines() if l and not l.startswith("KNOWN-FINDING")]
            viol = [l for l in lines if "] " in l and not l.startswith("property=")]
            summary = [l for l in lines if l.startswith("property=")]
            if r.returncode != 0:
                fired.append(p)
                print(f"== {p}: FIRED  {summary[-1] if summary else ''}")
                for l in viol[:6]:
                    print("   ", l[:400])
            elif p == prop:
                print(f"== {p}: silent {summary[-1] if summary else ''}")
    finally:
        sh(f"git -C {REPO} checkout -- . && git -C {REPO} clean -fdq")
    print("RESULT", os.path.relpath(d, "/tmp/seed_out") if d.startswith("/tmp/seed_out") else d, "own=" + ("FIRED" if prop in fired else "MISSED"), "all_fired=" + ",".join(fired))


if __name__ == "__main__":
    main()
