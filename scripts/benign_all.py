#!/usr/bin/env python3
"""Evaluate behaviour-preserving changes: every check must stay silent on each of them.

usage: benign_all.py [--import /tmp/benign_out] [--force]
Changes live under /verif/seeded/benign/<id>/<k>/ (patch.diff, why.md, meta.json); each is
applied to /repo, ALL claimed checks are run, and the change is undone. A check that fires is a
false alarm; it is written to result.txt and to /verif/seeded/BENIGN.md.
"""
import glob, json, os, shutil, subprocess, sys

ROOT = "/verif/seeded/benign"
REPO = "/repo"
LINT = "/verif/bin/ledgerlint"


def sh(cmd):
    return subprocess.run(cmd, shell=True, capture_output=True, text=True)


def main():
    args = sys.argv[1:]
    if "--import" in args:
        src = args[args.index("--import") + 1]
        for d in sorted(glob.glob(os.path.join(src, "C*", "*"))):
            p = os.path.join(d, "patch.diff")
            if not os.path.exists(p) or os.path.getsize(p) == 0:
                continue
            rel = os.path.relpath(d, src)
            dst = os.path.join(ROOT, rel)
            if os.path.exists(dst):
                continue
            os.makedirs(dst, exist_ok=True)
            for f in os.listdir(d):
                if os.path.isfile(os.path.join(d, f)) and os.path.getsize(os.path.join(d, f)) < 200_000:
                    shutil.copy(os.path.join(d, f), os.path.join(dst, f))
            print("imported", rel)
    props = [c["property_id"] for c in json.load(open("/verif/MANIFEST.json"))["checks"]]
    rows = []
    for d in sorted(glob.glob(os.path.join(ROOT, "[CR]*", "*"))):
        if not os.path.exists(os.path.join(d, "patch.diff")):
            continue
        pid, k = os.path.basename(os.path.dirname(d)), os.path.basename(d)
        resf = os.path.join(d, "result.txt")
        if os.path.exists(resf) and "--force" not in args:
            rows.append((pid, k, open(resf).read()))
            continue
        if sh(f"git -C {REPO} status --porcelain").stdout.strip():
            raise SystemExit("repo not clean")
        ap = sh(f"git -C {REPO} apply --whitespace=nowarn {d}/patch.diff")
        txt = ""
        if ap.returncode != 0:
            txt = "status=STALE (patch no longer applies)\n"
        else:
            fired = []
            lines = []
            try:
                # one process for all properties (`checkall` shares the loaded program); the verdict
                # per property is the same as the registered per-property command's
                r = sh(f"{LINT} checkall --repo {REPO}")
                cur = []
                for l in r.stdout.splitlines():
                    if l.startswith("KNOWN-FINDING") or l.startswith("NOTE"):
                        continue
                    if l.startswith("property="):
                        p = l.split()[0].split("=", 1)[1]
                        if "violations=0 undecided=0" not in l and p in props:
                            fired.append(p)
                            lines += [f"  {p}: {x[:400]}" for x in cur][:6]
                        cur = []
                    elif "] " in l:
                        cur.append(l)
            finally:
                sh(f"git -C {REPO} checkout -- . && git -C {REPO} clean -fdq")
            summary = ""
            try:
                summary = json.load(open(os.path.join(d, "meta.json"))).get("summary", "")
            except Exception:
                pass
            txt = f"status={'SILENT' if not fired else 'FALSE-ALARM'}\nfired={','.join(fired)}\nsummary={summary}\n" + "\n".join(lines) + "\n"
        open(resf, "w").write(txt)
        rows.append((pid, k, txt))
        print(pid, k, txt.splitlines()[0], txt.splitlines()[1] if len(txt.splitlines()) > 1 else "")
    with open("/verif/seeded/BENIGN.md", "w") as f:
        f.write("# Behaviour-preserving changes and what the checks say\n\nEach row is a refactoring produced by an independent sub-agent told to keep behaviour unchanged; every claimed check was run on it. `SILENT` is the expected verdict.\n\n| around | k | verdict | checks that fired | change |\n|---|---|---|---|---|\n")
        tot = ok = 0
        for pid, k, txt in rows:
            kv = dict(l.split("=", 1) for l in txt.splitlines() if "=" in l and not l.startswith(" "))
            if kv.get("status", "").startswith("STALE"):
                continue
            tot += 1
            ok += kv.get("status") == "SILENT"
            f.write(f"| {pid} | {k} | {kv.get('status','')} | {kv.get('fired','')} | {kv.get('summary','').replace('|','/')[:200]} |\n")
        f.write(f"\nSummary: {ok} of {tot} behaviour-preserving changes leave every check silent.\n")
    print("written /verif/seeded/BENIGN.md")


if __name__ == "__main__":
    main()
