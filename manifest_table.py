# Table of claims. Every property is either claimed (a registered ledgerlint check) or
# listed as not applicable with the reason.

claim("C01", "FLOW effect signature of VolumeUpdates + parsed shape of the accounts_volumes upsert + who-may-write over Go builders and final SQL function bodies + input/output label agreement of every reader",
      "Decides, on every run and for the whole tree, the structural conditions without which conservation cannot hold: each posting amount reaches exactly (source output +) and (destination input +); the upsert adds excluded.* onto the same column on the table's primary key; no other statement anywhere (Go, direct SQL, trigger/function bodies after all migrations) writes accounts_volumes; every SQL expression labelled input/output reads the matching side. It does not decide numeric results; a test can sample histories but cannot say 'no other writer exists'.",
      "Trusted: go/types, x/tools go/cfg, bun rendering clauses as given, Postgres ON CONFLICT semantics, own SQL front-end for the dialect subset (unparsed statements fail the check).", "DESIGN.md §3 C01")

claim("C02", "must-pass-through/dominance on CommitTransaction + who-may-call over a class-hierarchy call index + FLOW on balance computations + transaction-handle ownership (TXH) and begin/commit pairing (PAIR)",
      "Decides that the volumes upsert, the transaction row and the moves are always written together, in order, on one handle, from the three operations only; that balances are input minus output everywhere; that current-volume readers use accounts_volumes exactly when no point in time is set; and (shared with C07) that failed or dry-run operations cannot commit. Value equality with the fold is not decided.",
      "Trusted: go/types, go/cfg, class-hierarchy resolution of interface calls inside the module, bun/database-sql transaction semantics.", "DESIGN.md §3 C02")
claim("C03", "FLOW/step-order analysis of the unwinding loop + alias chain of the RETURNING scan + who-may-write per column over Go builders and final SQL function bodies",
      "Decides the shape that makes post-commit volumes right and immutable: copy before unwinding, reversed private copy of the postings, snapshot-before-subtract per side, IsSource placement, SubtractPostings on a copy, the returned map sharing its big.Int pointees with the rows bun scans into, and no UPDATE anywhere assigning post_commit_volumes. Driver scan order and numeric values are not decided.",
      "Trusted: bun Model+Returning scans into the model elements in order; own SQL front-end (unparsed write statements fail the check).", "DESIGN.md §3 C03")
claim("C07", "transaction-handle ownership (TXH) over all store call sites + begin/commit/rollback typestate on go/cfg with branch-correlation (PAIR) + error-must-propagate over every err != nil branch of the write path (ERRP)",
      "Decides for every call site and every path (not the sampled ones) that writes and row locks only go through the request's SQL transaction, that every path from BeginTX reaches Commit or Rollback, that Commit is unreachable from error and dry-run branches, and that no error branch of storage/controller/bulk code falls through or returns nil outside enumerated idioms. It found and the repository now fixes InsertLog dropping constraint errors. Whether Postgres undoes the work is trusted.",
      "Trusted: database/sql+bun transaction semantics; CHA call resolution; enumerated idioms listed in errp.go.", "DESIGN.md §4 C07")

PENDING = "check not built yet in this round (planned in DESIGN.md); not claimed until its rule runs"
for p in ["C04","C05","C06","C08","C09","C10","C11","C12","C13","C14","C15","C16","C17","C18","C19","C20","C25","C27","C28","C29","C30","C31","C32","C33","C34","C35","C36","C37","C38"]:
    na(p, PENDING)

na("C21", "exactly-once enumeration is arithmetic over database result pages (>= id, limit n+1, offsets); no necessary clause of it is visible as code shape without evaluating queries")
na("C22", "conservation law of a stack VM over all programs and balances: value-level, needs bytecode verification or deductive proof, not reachable with AST/CFG/SSA analysis")
na("C23", "overdraft bound over all programs and balances: value-level VM arithmetic")
na("C24", "exact rational allocation for all portion vectors and amounts: an arithmetic identity, not a code shape")
na("C26", "semantic equivalence of two interpreters, one of them in an external module; no structural necessary condition inside this repository")
