# Table of claims. Every property is either claimed (a registered ledgerlint check) or
# listed as not applicable with the reason.

claim("C01", "FLOW effect signature of VolumeUpdates + parsed shape of the accounts_volumes upsert + who-may-write over Go builders and final SQL function bodies + input/output label agreement of every reader",
      "Decides, on every run and for the whole tree, the structural conditions without which conservation cannot hold: each posting amount reaches exactly (source output +) and (destination input +); the upsert adds excluded.* onto the same column on the table's primary key; no other statement anywhere (Go, direct SQL, trigger/function bodies after all migrations) writes accounts_volumes; every SQL expression labelled input/output reads the matching side. It does not decide numeric results; a test can sample histories but cannot say 'no other writer exists'.",
      "Trusted: go/types, x/tools go/cfg, bun rendering clauses as given, Postgres ON CONFLICT semantics, own SQL front-end for the dialect subset (unparsed statements fail the check).", "DESIGN.md §3 C01")

PENDING = "check not built yet in this round (planned in DESIGN.md); not claimed until its rule runs"
for p in ["C02","C03","C04","C05","C06","C07","C08","C09","C10","C11","C12","C13","C14","C15","C16","C17","C18","C19","C20","C25","C27","C28","C29","C30","C31","C32","C33","C34","C35","C36","C37","C38"]:
    na(p, PENDING)

na("C21", "exactly-once enumeration is arithmetic over database result pages (>= id, limit n+1, offsets); no necessary clause of it is visible as code shape without evaluating queries")
na("C22", "conservation law of a stack VM over all programs and balances: value-level, needs bytecode verification or deductive proof, not reachable with AST/CFG/SSA analysis")
na("C23", "overdraft bound over all programs and balances: value-level VM arithmetic")
na("C24", "exact rational allocation for all portion vectors and amounts: an arithmetic identity, not a code shape")
na("C26", "semantic equivalence of two interpreters, one of them in an external module; no structural necessary condition inside this repository")
